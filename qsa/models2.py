"""Engine A semantic models, part 2: calls, operators, comparisons, isinstance,
constructor summaries, the Term ADT and the ExchangeRate summary."""
from __future__ import annotations

import ast
from fractions import Fraction
from typing import Dict, List, Optional

from .loader import src_of
from .poly import RF, PolyError
from .values import *  # noqa: F401,F403
from .models import (Models, NativeV, HashV, DictV, N_ATOM, _OPSYM, _DUNDER, _CMPSYM, _CMPDUNDER,
                     _REFLECT, is_exact_kind)

NUM_TOWER = {
    # kind -> set of abstract numeric type names it is an instance of
    "int": {"int", "Integral", "Rational", "Real", "Number", "Complex", "SupportsInt"},
    "bool": {"int", "bool", "Integral", "Rational", "Real", "Number", "Complex", "SupportsInt"},
    "dec": {"Decimal", "Rational", "Real", "Number", "Complex", "SupportsInt"},
    "frac": {"Fraction", "Rational", "Real", "Number", "Complex", "SupportsInt"},
    "float": {"float", "Real", "Number", "Complex", "SupportsInt"},
    "stddec": {"StdLibDecimal", "Number"},
    # a Rational of unknown concrete type (may be a plain int)
    "anyrat": {"Rational", "Real", "Number", "Complex", "SupportsInt"},
}


class ModelsOps:
    # =============================================================== isinstance
    def isinstance_(self, v, spec, node) -> bool:
        I = self.I
        if isinstance(spec, TupleV):
            return any(self.isinstance_(v, s, node) for s in spec.items)
        if isinstance(spec, ClsV):
            if not isinstance(v, QtyV):
                return False
            if self.st.T(spec.tid).generic:
                return True
            if spec.tid == "cls:Money":
                return self.decide_money(v.tid, node)
            return self.decide_same_type(v.tid, spec.tid, node, "isinstance")
        if isinstance(spec, OpaqueV):
            if spec.tag.startswith("typing.") or spec.tag.startswith("alias:"):
                nm = spec.tag.split(".")[-1]
                if nm in ("Mapping",):
                    return isinstance(v, DictV)
                if nm in ("MutableMapping", "Dict"):
                    return isinstance(v, DictV) and not getattr(v, "readonly", False)
                if nm in ("Sized", "Sequence", "Collection"):
                    if isinstance(v, GenV) or (isinstance(v, ListV) and v.lazy):
                        return False
                    if isinstance(v, ObjV) and v.ci is not None:
                        return self.prog.lookup(v.ci, "__len__") is not None
                    return isinstance(v, (TupleV, ListV, TermV, DictV))
                if nm == "Iterable":
                    return isinstance(v, (TupleV, ListV, TermV, DictV, GenV)) or \
                        (isinstance(v, ObjV) and v.ci is not None and self.prog.lookup(v.ci, "__iter__") is not None)
            I.unsupported(node, f"isinstance against {spec!r}")
        if isinstance(spec, (UnitV, QtyV, Num, StrV, NoneV, RateV, ListV, BoolV, ObjV, TermV)) or type(spec).__name__ == "DictV":
            # isinstance() arg 2 must be a type, a tuple of types, or a union
            self.flag("bad-isinstance", node, f"isinstance against a value that is no type: {spec!r}")
            I.raise_("TypeError", node)
        if not isinstance(spec, TypeV):
            I.unsupported(node, f"isinstance against {spec!r}")
        name = spec.name
        if isinstance(v, Num):
            kind = v.kind
            if kind == "exact":
                if name in ("Rational", "Real", "Number", "Complex", "SupportsInt"):
                    return True
                if name in ("Decimal", "Fraction"):
                    key = self.st.norm(v.rf).key()
                    k = self.st.kind_refine.get(key)
                    if k is None:
                        c = I.choose(2, f"kind@{getattr(node, 'lineno', '?')}", ["dec", "frac"])
                        k = ["dec", "frac"][c]
                        self.st.kind_refine[key] = k
                    return name == ("Decimal" if k == "dec" else "Fraction")
                return False
            return name in NUM_TOWER.get(kind, set())
        if isinstance(v, BoolV):
            return name in NUM_TOWER["bool"]
        if isinstance(v, QtyV):
            if name == "Quantity":
                return True
            if name == "Money":
                return self.decide_money(v.tid, node)
            return False
        if isinstance(v, UnitV):
            if name == "Unit":
                return True
            if name == "Currency":
                return self.decide_money(self.type_of_unit(v), node)
            if name == "NonNumTermElem":
                return True
            return False
        if isinstance(v, ClsV):
            return name in ("QuantityMeta", "ClassWithDefinitionMeta", "type") or \
                (name == "MoneyMeta" and self.st.T(v.tid).money)
        if isinstance(v, TermV):
            return name in ("Term", "Sized", "Sequence")
        if isinstance(v, RateV):
            return name == "ExchangeRate"
        if isinstance(v, StrV):
            return name == "str"
        if isinstance(v, (NoneV, NotImplV)):
            return False
        if isinstance(v, SIPrefixV):
            return name == "SIPrefix"
        if isinstance(v, TupleV):
            return name in ("tuple", "Sized", "Iterable", "Sequence")
        if isinstance(v, ListV):
            return name in ("list", "Sized", "Iterable", "Sequence")
        if isinstance(v, DictV):
            if getattr(v, "readonly", False):
                return name in ("Mapping", "Sized", "Iterable", "Collection", "Container")
            return name in ("dict", "Mapping", "MutableMapping", "Sized", "Iterable", "Collection", "Container")
        if isinstance(v, ConvV):
            if name == "MoneyConverter":
                if getattr(v, "is_money", None) is None:
                    v.is_money = bool(I.choose(2, "conv-kind", ["generic", "money"]))
                return v.is_money
            return False
        if isinstance(v, ObjV):
            if v.ci is None:
                return False
            return self.prog.is_subclass(v.ci, name)
        if isinstance(v, OpaqueV):
            kinds = getattr(v, "kinds", None)
            if kinds is not None:
                return name in kinds
            c = I.choose(2, f"isinstance({v.tag},{name})@{getattr(node, 'lineno', '?')}", ["no", "yes"])
            return bool(c)
        if isinstance(v, (FuncV, PyFuncV, NativeV, TypeV, EnumV, ModuleV, HashV, CmpV)):
            return False
        I.unsupported(node, f"isinstance of {v!r}")

    def decide_same_type(self, a, b, node, why="is") -> bool:
        s = self.st.same_type(a, b)
        if s is None:
            c = self.I.choose(2, f"type({a}) {why} type({b})", ["different", "same"])
            if c == 1:
                self.st.unify_types(a, b)
            else:
                self.st.distinct_types(a, b)
            return bool(c)
        return s

    def decide_same_unit(self, a, b, node) -> bool:
        s = self.st.same_unit(a, b)
        if s is None:
            c = self.I.choose(2, f"{a} is {b}", ["different", "same"])
            if c == 1:
                self.st.unify_units(a, b)
            else:
                self.st.distinct_units(a, b)
            return bool(c)
        return s

    # =============================================================== identity / comparison
    def is_(self, l, r, node) -> bool:
        if isinstance(l, NoneV) or isinstance(r, NoneV):
            return isinstance(l, NoneV) and isinstance(r, NoneV)
        if isinstance(l, UnitV) and isinstance(r, UnitV):
            return self.decide_same_unit(l.uid, r.uid, node)
        if isinstance(l, ClsV) and isinstance(r, ClsV):
            return self.decide_same_type(l.tid, r.tid, node)
        if isinstance(l, TypeV) and isinstance(r, TypeV):
            return l.name == r.name
        if isinstance(l, NotImplV) or isinstance(r, NotImplV):
            return isinstance(l, NotImplV) and isinstance(r, NotImplV)
        if type(l) is not type(r):
            if {type(l), type(r)} == {ConvV, ObjV}:
                return bool(self.I.choose(2, f"converter-identity@{getattr(node, 'lineno', '?')}", ["different", "same"]))
            if isinstance(l, OpaqueV) or isinstance(r, OpaqueV):
                return bool(self.I.choose(2, f"is@{getattr(node, 'lineno', '?')}", ["different", "same"]))
            return False
        if isinstance(l, ConvV) or (isinstance(l, ObjV) and isinstance(r, ConvV)) or \
                (isinstance(l, ConvV) and isinstance(r, ObjV)):
            if l is r:
                return True
            if getattr(l, "concrete", False) and getattr(r, "concrete", False):
                return False        # two different converter objects of a concrete scenario
            return bool(self.I.choose(2, f"converter-identity@{getattr(node, 'lineno', '?')}", ["different", "same"]))
        if isinstance(l, (QtyV, TermV, RateV, ObjV, ListV)):
            return l is r
        if isinstance(l, EnumV):
            return l.member == r.member
        if isinstance(l, Num) and isinstance(r, Num):
            # identity of two numbers: possible only if they are equal; otherwise unknown (an object may or may not
            # be the very constant it is compared with), so both outcomes are explored
            if l is r:
                return True
            a, b = self.st.norm(l.rf), self.st.norm(r.rf)
            if (a - b).is_const() and not (a - b).is_zero():
                return False
            c = self.I.choose(2, f"is@{getattr(node, 'lineno', '?')}", ["different", "same"])
            if c == 1:
                if not self.decide_cmp("==", l, r, node):
                    raise Infeasible
                return True
            return False
        if isinstance(l, FuncV):
            return l.name == r.name
        if isinstance(l, PyFuncV):
            return l is r or (l.fi is r.fi and l.self_val is None and r.self_val is None)
        if isinstance(l, (TupleV, StrV, BoolV, DictV)) or type(l).__name__ in ("IterV", "GenV", "LambdaV", "NativeV", "SliceV"):
            return l is r
        if isinstance(l, OpaqueV):
            if l is r:
                return True
            return bool(self.I.choose(2, f"is@{getattr(node, 'lineno', '?')}", ["different", "same"]))
        self.I.unsupported(node, f"identity of {l!r} and {r!r}")

    def compare(self, op, l, r, node):
        I = self.I
        if op is ast.Is:
            return BoolV(self.is_(l, r, node))
        if op is ast.IsNot:
            return BoolV(not self.is_(l, r, node))
        if op in (ast.Eq, ast.NotEq) and isinstance(l, DateV) and isinstance(r, DateV):
            eq = self.keys_equal(l, r, node)
            return BoolV(eq if op is ast.Eq else not eq)
        if op in (ast.In, ast.NotIn):
            if isinstance(r, TupleV) or (isinstance(r, ListV) and r.items is not None):
                hit = any(self.keys_equal(x, l, node) for x in r.items)
                return BoolV(hit if op is ast.In else not hit)
            if type(r).__name__ == "DictV":
                hit = any(self.keys_equal(k, l, node) for k, _ in r.items)
                return BoolV(hit if op is ast.In else not hit)
            if isinstance(r, (ClsV, ObjV)):
                fi_ = self.dunder_of(r, "__contains__")
                if fi_ is not None:
                    res_ = self.truth(I.call_function(fi_, [r, l], {}, node), node)
                    return BoolV(res_ if op is ast.In else not res_)
            if isinstance(r, GlobalMapV) and isinstance(l, TupleV) and not getattr(r, "registry", False) \
                    and not getattr(r, "convtable", False):
                # operation cache: Engine A follows the miss (hit == recomputation, rule R17.1) unless hits are modelled
                self.st.effects.append(("mapread", r, l, self.where(node)))
                present = self.is_memo_map(r) and self.memo_stored(r, l, node) is not None
                if not present and self.cache_hits and (self.cache_hits is True or r.name in self.cache_hits):
                    present = bool(I.choose(2, f"cache@{getattr(node, 'lineno', '?')}", ["miss", "hit"]))
                    if present:
                        r.__dict__.setdefault("hit_keys", []).append(l)
                return BoolV(present if op is ast.In else not present)
            if isinstance(r, GlobalMapV) and not isinstance(l, (StrV, OpaqueV)) and not getattr(r, "registry", False) \
                    and not getattr(r, "convtable", False) and not getattr(r, "unit_values", False):
                # a memo keyed by values: present only if stored on this path (Engine A follows the miss)
                self.st.effects.append(("mapread", r, l, self.where(node)))
                present = self.memo_stored(r, l, node) is not None
                return BoolV(present if op is ast.In else not present)
            if isinstance(r, (ListV, GlobalMapV, OpaqueV, TupleV)) and not (isinstance(r, TupleV)):
                res = bool(I.choose(2, f"in@{getattr(node, 'lineno', '?')}", ["absent", "present"]))
                self.st.effects.append(("contains", r, l, res, self.where(node)))
                return BoolV(res if op is ast.In else not res)
            I.unsupported(node, "membership test")
        sym = _CMPSYM[op]
        if isinstance(l, CmpV):         # a comparison result used as a value: its truth value
            l = BoolV(self.truth(l, node))
        if isinstance(r, CmpV):
            r = BoolV(self.truth(r, node))
        if isinstance(l, BoolV):
            l = self.num_const(int(l.val), "bool")
        if isinstance(r, BoolV):
            r = self.num_const(int(r.val), "bool")
        if isinstance(l, Num) and isinstance(r, Num):
            self.check_float_mix(l, r, node, cmp=True)
            return CmpV(sym, l, r)
        if isinstance(l, StrV) and isinstance(r, StrV):
            if l.const is not None and r.const is not None:
                if sym in ("<", "<=", ">", ">="):
                    return BoolV({"<": l.const < r.const, "<=": l.const <= r.const, ">": l.const > r.const,
                                  ">=": l.const >= r.const}[sym])
                res = l.const == r.const
                return BoolV(res if sym == "==" else not res)
            if r.const == "" or l.const == "":
                other = l if r.const == "" else r
                t = self.truth(other, node)
                return BoolV((not t) if sym == "==" else t)
            return OpaqueV("strcmp")
        if isinstance(l, EnumV) and isinstance(r, EnumV) and getattr(l, "origin", None) == "default" and \
                getattr(r, "origin", None) == "default" and sym in ("==", "!=") and \
                (l.member is None or r.member is None or getattr(l, "epoch", 0) != getattr(r, "epoch", 0)):
            # the default mode of one ambient state is one mode; that of another state is taken to be another one
            same = getattr(l, "epoch", 0) == getattr(r, "epoch", 0)
            return BoolV(same if sym == "==" else not same)
        if isinstance(l, EnumV) or isinstance(r, EnumV):
            for e in (l, r):
                if isinstance(e, EnumV) and e.member is None:
                    from .tables import rounding_modes_from_dependency
                    ms = rounding_modes_from_dependency()
                    e.member = ms[I.choose(len(ms), f"default-rounding-mode{('@' + str(getattr(e, 'epoch', 0))) if getattr(e, 'epoch', 0) else ''}", ms)]
            if isinstance(l, EnumV) and isinstance(r, EnumV):
                res = l.member == r.member
                return BoolV(res if sym == "==" else not res)
            if sym in ("==", "!="):
                o = r if isinstance(l, EnumV) else l
                if isinstance(o, OpaqueV):
                    return OpaqueV("enumcmp")
                return BoolV(sym == "!=")
        # rich comparison dispatch
        dn = _CMPDUNDER[op]
        res = self.dispatch_cmp(dn, l, r, node)
        if res is NOTIMPL or isinstance(res, NotImplV):
            res2 = self.dispatch_cmp(_REFLECT[dn], r, l, node)
            if isinstance(res2, NotImplV):
                if dn == "__eq__":
                    return BoolV(self.is_(l, r, node) if _same_class(l, r) else False)
                if dn == "__ne__":
                    return BoolV(not (self.is_(l, r, node) if _same_class(l, r) else False))
                I.raise_("TypeError", node)
            res = res2
        return res

    def dispatch_cmp(self, dn, l, r, node):
        I = self.I
        negate = False
        fi = self.dunder_of(l, dn)
        if fi is None and dn == "__ne__":
            fi = self.dunder_of(l, "__eq__")
            negate = True
        if fi is None:
            if isinstance(l, TermV):
                return self.term_cmp(dn, l, r, node)
            if isinstance(l, TupleV) and isinstance(r, TupleV) and dn in ("__eq__", "__ne__"):
                return self.tuple_eq(l, r, node, dn == "__ne__")
            if isinstance(l, (TupleV, ListV)) and type(l) is type(r) and l.items is not None and r.items is not None \
                    and dn in ("__lt__", "__le__", "__gt__", "__ge__"):
                return BoolV(self.seq_less(l.items, r.items, dn, node))
            if isinstance(l, ListV) and isinstance(r, ListV) and l.items is not None and r.items is not None \
                    and dn in ("__eq__", "__ne__"):
                return self.tuple_eq(l, r, node, dn == "__ne__")
            if type(l).__name__ == "DictV" and type(r).__name__ == "DictV" and dn in ("__eq__", "__ne__"):
                # dicts are equal when they hold equal values under equal keys
                def views(d):
                    out = []
                    for k_, v_ in d.items:          # later entries override earlier ones
                        out = [(k2, v2) for k2, v2 in out if not self.keys_equal(k2, k_, node)] + [(k_, v_)]
                    return out
                a_, b_ = views(l), views(r)
                same = len(a_) == len(b_)
                if same:
                    for k_, v_ in a_:
                        hit = [v2 for k2, v2 in b_ if self.keys_equal(k2, k_, node)]
                        if not hit or not self.truth(self.compare(ast.Eq, v_, hit[0], node), node):
                            same = False
                            break
                return BoolV(same == (dn == "__eq__"))
            if isinstance(l, ObjV) and isinstance(r, ObjV) and l.ci is not None and l.ci is r.ci and \
                    "dataclass" in getattr(l.ci, "decorators", ()) and dn in ("__eq__", "__ne__"):
                same = all(self.truth(self.compare(ast.Eq, l.fields.get(f, NONE), r.fields.get(f, NONE), node), node)
                           for f in l.ci.fields)
                return BoolV(same == (dn == "__eq__"))
            if isinstance(l, (NoneV,)) and dn in ("__eq__", "__ne__"):
                return BoolV((isinstance(r, NoneV)) == (dn == "__eq__"))
            if isinstance(l, (OpaqueV, HashV)) or isinstance(r, (OpaqueV,)):
                if isinstance(l, Num) or isinstance(l, StrV):
                    return NOTIMPL if not isinstance(r, OpaqueV) else OpaqueV("cmp")
                return OpaqueV("cmp")
            return NOTIMPL
        res = I.call_function(fi, [l, r], {}, node)
        if negate and not isinstance(res, NotImplV):
            return BoolV(not self.truth(res, node))
        return res

    def seq_less(self, a, b, dn, node) -> bool:
        """Lexicographic order of two concrete sequences."""
        strict = {"__lt__": ast.Lt, "__le__": ast.Lt, "__gt__": ast.Gt, "__ge__": ast.Gt}[dn]
        for x, y in zip(a, b):
            if self.truth(self.compare(ast.Eq, x, y, node), node):
                continue
            return self.truth(self.compare(strict, x, y, node), node)
        if len(a) == len(b):
            return dn in ("__le__", "__ge__")
        return (len(a) < len(b)) == (dn in ("__lt__", "__le__"))

    def tuple_eq(self, l: TupleV, r: TupleV, node, negate):
        if len(l.items) != len(r.items):
            return BoolV(negate)
        for a, b in zip(l.items, r.items):
            e = self.compare(ast.Eq, a, b, node)
            if not self.truth(e, node):
                return BoolV(negate)
        return BoolV(not negate)

    def dunder_of(self, v, name):
        cname = None
        if isinstance(v, QtyV):
            cname = "Quantity"
        elif isinstance(v, UnitV):
            cname = "Unit"
        elif isinstance(v, RateV):
            cname = "ExchangeRate"
        elif isinstance(v, ObjV) and v.ci is not None:
            cname = v.ci.name
        elif isinstance(v, ClsV):
            cname = "QuantityMeta"
        if cname is None or not self.prog.has_cls(cname):
            return None
        return self.prog.lookup(self.prog.cls(cname), name)

    # =============================================================== arithmetic
    def check_float_mix(self, l: Num, r: Num, node, cmp=False):
        if (l.kind == "float") != (r.kind == "float") or (l.kind == "float" and r.kind == "float" and not cmp):
            if not cmp:
                self.flag("float-arith", node, f"{l.kind} with {r.kind}")

    def stable_sort(self, items, keyf, reverse, node):
        """Stable sort by symbolic keys: unknown orders fork (memoised, hence consistent on a path)."""
        rev = reverse is not None and self.truth(reverse, node)
        seq = list(reversed(items)) if rev else list(items)
        keys = [self.call(keyf, [x], {}, node) for x in seq]
        out = []
        for k, x in zip(keys, seq):
            pos = len(out)
            while pos > 0 and self.key_less(k, out[pos - 1][0], node):
                pos -= 1
            out.insert(pos, (k, x))
        res = [x for _, x in out]
        return list(reversed(res)) if rev else res

    def key_less(self, a, b, node) -> bool:
        if isinstance(a, BoolV):
            a = self.num_const(int(a.val), "bool")
        if isinstance(b, BoolV):
            b = self.num_const(int(b.val), "bool")
        if isinstance(a, Num) and isinstance(b, Num):
            return self.decide_cmp("<", a, b, node)
        if isinstance(a, StrV) and isinstance(b, StrV):
            if a.const is not None and b.const is not None:
                return a.const < b.const
            ta = a.const if a.const is not None else a.tag
            tb = b.const if b.const is not None else b.tag
            if ta == tb:
                return False
            memo = self.st.__dict__.setdefault("str_lt", {})
            if (ta, tb) not in memo:
                r = bool(self.I.choose(2, f"str-order({ta} < {tb})", ["no", "yes"]))
                memo[(ta, tb)] = r
                memo[(tb, ta)] = not r
            return memo[(ta, tb)]
        if isinstance(a, TupleV) and isinstance(b, TupleV):
            for x, y in zip(a.items, b.items):
                if self.key_less(x, y, node):
                    return True
                if self.key_less(y, x, node):
                    return False
            return len(a.items) < len(b.items)
        self.I.unsupported(node, f"ordering of sort keys {a!r} and {b!r}")

    def simplify_numden(self, rf: RF) -> RF:
        """numerator(x)/denominator(x) == x, also inside products: every factor numerator(x)^k * denominator(x)^-k of a
        quotient of monomials is replaced by x^k."""
        rf = self.st.norm(rf)
        if not (rf.n.is_monomial() and rf.d.is_monomial()):
            return rf
        (mn, cn), = rf.n.t.items()
        (md, cd), = rf.d.t.items()
        exps = {}
        for m, sgn in ((mn, 1), (md, -1)):
            for a, e in m:
                if e[1] != 0:
                    return rf
                exps[a] = exps.get(a, 0) + sgn * e[0]
        nums = [a for a in exps if a[0] == "fn" and a[1] == "numerator" and exps[a] != 0]
        dens = [a for a in exps if a[0] == "fn" and a[1] == "denominator" and exps[a] != 0]
        out = rf
        for na in nums:
            x = self.st.norm(self.st.rnd_args[na[2]])
            for da in dens:
                if exps.get(na, 0) == 0 or exps.get(da, 0) == 0:
                    continue
                y = self.st.norm(self.st.rnd_args[da[2]])
                if x.equals(y) and exps[na] == -exps[da]:
                    k = exps[na]
                    pair = RF.atom(na).pow_int(k) * RF.atom(da).pow_int(-k)
                    out = out / pair * x.pow_int(k)
                    exps[na] = exps[da] = 0
        return self.st.norm(out)

    def num_binop(self, op, l: Num, r: Num, node) -> Num:
        if op in (ast.BitOr, ast.BitAnd, ast.BitXor, ast.LShift, ast.RShift):
            a, b = self.st.norm(l.rf), self.st.norm(r.rf)
            if a.is_const() and b.is_const() and a.const_value().denominator == 1 and b.const_value().denominator == 1 \
                    and l.kind in ("int", "bool") and r.kind in ("int", "bool"):
                x, y = int(a.const_value()), int(b.const_value())
                try:
                    v = {ast.BitOr: lambda: x | y, ast.BitAnd: lambda: x & y, ast.BitXor: lambda: x ^ y,
                         ast.LShift: lambda: x << y, ast.RShift: lambda: x >> y}[op]()
                except (ValueError, OverflowError):
                    self.I.raise_("ValueError", node)
                return Num(RF.const(v), "int")
            self.I.unsupported(node, "bit operation on symbolic integers")
        self.check_float_mix(l, r, node)
        kinds = {l.kind, r.kind}
        try:
            if op is ast.Add:
                rf = l.rf + r.rf
            elif op is ast.Sub:
                rf = l.rf - r.rf
            elif op is ast.Mult:
                rf = l.rf * r.rf
            elif op is ast.Div:
                if self.st.norm(r.rf).is_zero():
                    self.I.raise_("ZeroDivisionError", node)
                rf = l.rf / r.rf
            elif op is ast.Pow:
                base = self.st.norm(l.rf)
                rexp = self.st.norm(r.rf)
                fn_exp = (not rexp.is_const()) and any(a_[0] == "fn" for a_ in rexp.atoms())
                e = None if (fn_exp and base.is_const() and base.const_value() > 0) else self.exp_of(r, node)
                if e is None and base.is_const() and base.const_value() > 0 and r.kind in ("int", "bool"):
                    # c ** <integer expression>: an opaque positive power of the constant, keyed by the exponent
                    c = base.const_value()
                    tag = "pw10" if c == 10 else f"cpow{c}"
                    at = (tag, repr(self.st.norm(r.rf)))
                    self.st.pow_exps = getattr(self.st, "pow_exps", {})
                    self.st.pow_exps[at] = self.st.norm(r.rf)
                    return Num(RF.atom(at), "dec" if l.kind == "dec" else l.kind)
                if e is None:
                    self.I.unsupported(node, "non-linear exponent")
                rf = self.st.norm(l.rf).pow_sym(e)
                if l.kind in ("int", "bool", "anyrat") and (e[1] != 0 or e[0] < 0):
                    self.flag("int-neg-pow", node, "int ** possibly negative exponent yields float")
                    return Num(rf, "float")
            elif op in (ast.Mod, ast.FloorDiv):
                nm = "mod" if op is ast.Mod else "floordiv"
                rf = self.ufn(nm, self.simplify_numden(l.rf / r.rf))
            else:
                self.I.unsupported(node, "numeric operator")
        except PolyError as e:
            self.I.unsupported(node, f"arithmetic outside the polynomial domain ({e})")
        if "float" in kinds:
            kind = "float"
        elif "anyrat" in kinds:
            if kinds <= {"int", "bool", "anyrat"}:
                if op is ast.Div:
                    self.flag("int-div", node, "both operands may be plain ints: int / int yields a float")
                    kind = "float"
                else:
                    kind = "anyrat"
            else:
                kind = "exact"
        elif op is ast.Div:
            if kinds <= {"int", "bool"}:
                self.flag("int-div", node, "int / int yields float")
                kind = "float"
            elif "frac" in kinds:
                kind = "frac"
            else:
                kind = "exact"
        elif kinds <= {"int", "bool"}:
            kind = "int"
        elif kinds <= {"dec", "int", "bool"} and op is not ast.Pow:
            kind = "dec"
        elif "frac" in kinds and not ("exact" in kinds):
            kind = "frac" if kinds <= {"frac", "int", "bool", "dec"} else "exact"
        elif kinds <= {"dec", "int", "bool"}:
            kind = "exact" if op is ast.Pow else "dec"
            if op is ast.Pow and l.kind == "dec":
                # a decimal whose numerator and denominator have no prime factors besides 2 and 5 has a terminating
                # reciprocal: every integer power of it is a decimal again
                b = self.st.norm(l.rf)
                if b.is_const() and b.const_value() != 0:
                    def only_2_5(n_):
                        n_ = abs(n_)
                        for p_ in (2, 5):
                            while n_ % p_ == 0:
                                n_ //= p_
                        return n_ == 1
                    q_ = b.const_value()
                    if only_2_5(q_.numerator) and only_2_5(q_.denominator):
                        kind = "dec"
        else:
            kind = "exact"
        return Num(rf, kind)

    # =============================================================== text templates (enabled per scenario)
    # =============================================================== regular expressions as readers
    def regex_compile(self, args, kwargs, node):
        pat = args[0] if args else kwargs.get("pattern")
        fl = args[1] if len(args) > 1 else kwargs.get("flags")
        if not (isinstance(pat, StrV) and pat.const is not None):
            self.I.unsupported(node, "pattern that is not a constant text")
        flags = 0
        if fl is not None:
            if not (isinstance(fl, Num) and self.st.norm(fl.rf).is_const()):
                self.I.unsupported(node, "pattern flags that are not constant")
            flags = int(self.st.norm(fl.rf).const_value())
        return RegexV(pat.const, flags)

    def regex_apply(self, rx: RegexV, how, text, node):
        import re as _re
        from .regexmodel import RegexUnsupported, reader_profile
        I = self.I
        if not isinstance(text, StrV):
            self.flag("bad-amount", node, "pattern applied to a non-text")
            I.raise_("TypeError", node)
        try:
            prof = reader_profile(rx.pattern, rx.flags, how)
        except RegexUnsupported as e:
            I.unsupported(node, f"pattern outside the reader model: {e}")
        if text.const is not None:
            m = getattr(_re.compile(rx.pattern, rx.flags), how)(text.const)
            if m is None:
                return NONE
            return MatchV(rx, text, prof, concrete=m)
        # an opaque text: recorded like a split, judged by what the pattern does to the writer's text forms
        self.st.effects.append(("strsplit", text, "regex", [StrV(rx.pattern), self.num_const(rx.flags), StrV(how)],
                                self.where(node), prof))
        if prof["always_fail"]:
            return NONE
        if prof["can_fail"]:
            c = I.choose(2, f"match@{getattr(node, 'lineno', '?')}", ["no match", "match"])
            if c == 0:
                return NONE
        return MatchV(rx, text, prof)

    def match_group(self, m: MatchV, key, node):
        I = self.I
        prof = m.profile
        if isinstance(key, StrV) and key.const is not None:
            if key.const not in prof["names"]:
                I.raise_("IndexError", node)
            idx = prof["names"][key.const]
        elif isinstance(key, Num) and self.st.norm(key.rf).is_const():
            idx = int(self.st.norm(key.rf).const_value())
        else:
            I.unsupported(node, "match group selected by a computed key")
        if idx < 0 or idx > prof["groups"]:
            I.raise_("IndexError", node)
        if m.concrete is not None:
            v = m.concrete.group(idx)
            return NONE if v is None else StrV(v)
        if idx in m.pieces:
            return m.pieces[idx]
        if idx == 0:
            v = m.text
        elif idx == prof["amount_group"]:
            v = StrV(None, "part0")
        elif idx == prof["symbol_group"]:
            # present when the text goes on after the amount
            c = I.choose(2, f"group@{getattr(node, 'lineno', '?')}", ["absent", "present"])
            if c == 1:
                v = StrV(None, "part1")
            else:
                v = NONE if prof.get("symbol_absent_is_none") else StrV("")
        else:
            I.unsupported(node, f"group {idx} of the pattern is neither the amount nor the symbol of the text form")
        m.pieces[idx] = v
        return v

    def fresh_date(self, tag):
        t = self.st.fresh(tag)
        return DateV(t, *(Num(RF.atom(("k", f"{t}.{f}")), "int") for f in ("year", "month", "day")))

    def text_fields(self, v, sep):
        """The `sep`-separated fields of a text template, as numbers (a run of digits denotes its value, a rendered
        integer itself, the i-th field of an opaque text of known field count a symbol of its own); None when the
        template does not determine them."""
        chunks = [[]]

        def walk(t):
            for p in self.text_parts(t):
                if p[0] == "lit":
                    bits = p[1].split(sep)
                    for i, b in enumerate(bits):
                        if i:
                            chunks.append([])
                        if b:
                            chunks[-1].append(b)
                    continue
                x = p[1]
                if isinstance(x, Num):
                    chunks[-1].append(x)
                elif isinstance(x, StrV) and getattr(x, "parts", None) is not None:
                    walk(x)
                elif isinstance(x, StrV) and getattr(x, "n_fields", None) is not None and x.n_fields[0] == sep:
                    for i in range(x.n_fields[1]):
                        if i:
                            chunks.append([])
                        chunks[-1].append(Num(RF.atom(("k", f"{x.tag}.f{i}")), "int"))
                else:
                    chunks[-1].append(None)
        walk(v)
        out = []
        for c in chunks:
            if len(c) != 1 or c[0] is None:
                return None
            if isinstance(c[0], str):
                if not c[0].isdigit():
                    return None
                out.append(self.num_const(int(c[0]), "int"))
            else:
                out.append(c[0])
        return out

    def split_template(self, v, sep):
        """str.split(sep) of a text all of whose rendered values are plain digit runs (a premise the scenario that
        built the text states by marking it)."""
        if not getattr(v, "digits_only", False):
            return None
        fields = [[]]
        for p in self.text_parts(v):
            if p[0] == "lit":
                bits = p[1].split(sep)
                for i, b in enumerate(bits):
                    if i:
                        fields.append([])
                    if b:
                        fields[-1].append(("lit", b))
            else:
                fields[-1].append(p)
        out = []
        for f in fields:
            t = self.mk_text(f) if f else StrV("")
            if isinstance(t, StrV) and t.const is None:
                t.digits_only = True
            out.append(t)
        return out

    def date_from_text(self, text, node):
        I = self.I
        if isinstance(text, StrV) and text.const is not None:
            import datetime
            try:
                d = datetime.date.fromisoformat(text.const)
            except ValueError:
                I.raise_("ValueError", node)
            return DateV("date", *(self.num_const(x, "int") for x in (d.year, d.month, d.day)))
        fields = self.text_fields(text, "-") if isinstance(text, StrV) and getattr(self, "text_templates", False) else None
        if fields is not None and len(fields) != 3:
            I.raise_("ValueError", node)        # not of the form YYYY-MM-DD
        status = self.date_parts_status(fields) if fields is not None else "unknown"
        if status == "invalid":
            I.raise_("ValueError", node)
        if status != "valid":
            c = I.choose(2, "fromisoformat", ["ValueError", "ok"])
            if c == 0:
                I.raise_("ValueError", node)
        if fields is None:
            return self.fresh_date("date")
        return DateV("date", *fields)

    _DATE_RANGES = ((1, 9999, 9999), (1, 12, 12), (1, 28, 31))

    def date_parts_status(self, vals):
        """Is (year, month, day) a calendar date?  "valid" / "invalid" when the components decide it - constants by
        their value, symbols by what the scenario states about them (`st.valid_date_parts`: the year / month / day of
        a date that exists) - and "unknown" otherwise."""
        if len(vals) != 3 or not all(isinstance(x, Num) for x in vals):
            return "unknown"
        known = getattr(self.st, "valid_date_parts", None) or set()
        res = "valid"
        rfs = [self.st.norm(x.rf) for x in vals]
        for pos, rf in enumerate(rfs):
            lo, sure, hi = self._DATE_RANGES[pos]
            if rf.is_const():
                v = rf.const_value()
                if v != int(v) or not lo <= v <= hi:
                    return "invalid"
                if pos == 2 and rfs[1].is_const() and 1 <= rfs[1].const_value() <= 12:
                    # the length of a given month (29 February depends on the year)
                    n = (31, 28, 31, 30, 31, 30, 31, 31, 30, 31, 30, 31)[int(rfs[1].const_value()) - 1]
                    if v > n + (1 if n == 28 else 0):
                        return "invalid"
                    if v > n:
                        res = "unknown"
                elif v > sure:
                    res = "unknown"
            elif (repr(rf), pos) not in known:
                res = "unknown"
        return res

    def text_parts(self, v):
        """Template parts of a text value: ("lit", str) / ("val", value[, spec])."""
        if isinstance(v, StrV):
            if v.const is not None:
                return [("lit", v.const)] if v.const else []
            p = getattr(v, "parts", None)
            if p is not None:
                return list(p)
        return [("val", v)]

    def mk_text(self, parts):
        out = []
        for p in parts:
            if p[0] == "lit" and out and out[-1][0] == "lit":
                out[-1] = ("lit", out[-1][1] + p[1])
            elif p[0] == "lit" and not p[1]:
                continue
            else:
                out.append(p)
        if all(p[0] == "lit" for p in out):
            return StrV("".join(p[1] for p in out))
        if len(out) == 1 and out[0][0] == "val" and len(out[0]) == 2 and isinstance(out[0][1], StrV):
            return out[0][1]
        s = StrV(None, "text")
        s.parts = out
        s.nonempty = True if any(p[0] == "lit" and p[1] for p in out) else None
        return s

    def text_of(self, v, spec, node, how="format"):
        """The text `format(v, spec)` (how='format') or `str(v)` (how='str') denotes, as a template."""
        I = self.I
        spec_const = spec.const if isinstance(spec, StrV) else ("" if spec is None else None)
        if isinstance(v, StrV):
            if how == "str" or spec_const == "":
                return v
            o = StrV(None, "formatted")
            return o
        if isinstance(v, Num):
            if how == "str" or spec_const == "":
                return self.mk_text([("val", v)])         # str(x) == format(x, '') for numbers (trusted)
            return self.mk_text([("val", v, spec_const if spec_const is not None else "?")])
        cname = None
        if isinstance(v, QtyV):
            cname = "Money" if (self.st.T(v.tid).money and self.prog.has_cls("Money")) else "Quantity"
        elif isinstance(v, UnitV):
            cname = "Unit"
            if self.prog.has_cls("Currency") and self.st.T(self.type_of_unit(v)).money:
                cname = "Currency"
        elif isinstance(v, ObjV) and v.ci is not None:
            cname = v.ci.name
        if cname is not None and self.prog.has_cls(cname):
            ci = self.prog.cls(cname)
            if how == "format":
                fi = self.prog.lookup(ci, "__format__")
                if fi is not None:
                    return I.call_function(fi, [v, spec if isinstance(spec, StrV) else StrV("")], {}, node)
            fi = self.prog.lookup(ci, "__str__")
            if fi is not None and (how == "str" or spec_const == ""):
                return I.call_function(fi, [v], {}, node)
        return StrV(None, f"text({v!r})")

    def format_template(self, fmt: StrV, args, kwargs, node):
        """str.format with a constant format string, as a template."""
        import string
        parts = []
        auto = 0
        try:
            fields = list(string.Formatter().parse(fmt.const))
        except ValueError:
            self.I.raise_("ValueError", node)
        for lit, name, spec, conv in fields:
            if lit:
                parts.append(("lit", lit))
            if name is None:
                continue
            if name == "":
                key = auto
                auto += 1
            elif name.isdigit():
                key = int(name)
            elif name.isidentifier():
                key = name
            else:
                return StrV(None, "formatted")          # attribute / index lookups in the field: not modelled
            if isinstance(key, int):
                if key >= len(args):
                    self.I.raise_("IndexError", node)
                v = args[key]
            else:
                if key not in kwargs:
                    self.I.raise_("KeyError", node)
                v = kwargs[key]
            if spec and "{" in spec:
                return StrV(None, "formatted")
            if conv == "r":
                parts.append(("val", StrV(None, "repr")))
                continue
            t = self.text_of(v, StrV(spec or ""), node, how="str" if conv == "s" and not spec else "format")
            parts.extend(self.text_parts(t))
        return self.mk_text(parts)

    def percent_template(self, fmt: StrV, r, node):
        import re as _re
        args = list(r.items) if isinstance(r, TupleV) else [r]
        parts, pos, i = [], 0, 0
        for m in _re.finditer(r"%(%|[sdr])", fmt.const):
            parts.append(("lit", fmt.const[pos:m.start()]))
            pos = m.end()
            if m.group(1) == "%":
                parts.append(("lit", "%"))
                continue
            if i >= len(args):
                self.I.raise_("TypeError", node)
            v = args[i]
            i += 1
            if m.group(1) == "r":
                parts.append(("val", StrV(None, "repr")))
            else:
                parts.extend(self.text_parts(self.text_of(v, None, node, how="str")))
        rest = fmt.const[pos:]
        if "%" in rest or i != len(args):
            return StrV(None, "formatted")
        parts.append(("lit", rest))
        return self.mk_text(parts)

    def binop(self, op, l, r, node):
        I = self.I
        if isinstance(l, CmpV):         # arithmetic on a comparison result: its truth value as 0 / 1
            l = BoolV(self.truth(l, node))
        if isinstance(r, CmpV):
            r = BoolV(self.truth(r, node))
        if isinstance(l, BoolV):
            l = self.num_const(int(l.val), "bool")
        if isinstance(r, BoolV):
            r = self.num_const(int(r.val), "bool")
        if isinstance(l, Num) and isinstance(r, Num):
            return self.num_binop(op, l, r, node)
        if isinstance(l, StrV) and op is ast.Mod:
            if getattr(self, "text_templates", False) and l.const is not None:
                return self.percent_template(l, r, node)
            return StrV(None, "formatted")
        if isinstance(l, StrV) and isinstance(r, StrV) and op is ast.Add:
            if l.const is not None and r.const is not None:
                return StrV(l.const + r.const)
            if getattr(self, "text_templates", False):
                return self.mk_text(self.text_parts(l) + self.text_parts(r))
            return StrV(None, "concat")
        if isinstance(l, TupleV) and isinstance(r, TupleV) and op is ast.Add:
            return TupleV(l.items + r.items)
        if isinstance(l, ListV) and isinstance(r, ListV) and op is ast.Add and l.items is not None and r.items is not None:
            return ListV(l.items + r.items)
        if isinstance(l, DictV) and isinstance(r, DictV) and op is ast.BitOr and getattr(l, "rate_table", None) is None:
            return DictV(self.dict_view(l, node) + self.dict_view(r, node))
        if op is ast.BitOr and isinstance(l, (TypeV, ClsV, TupleV, NoneV)) and isinstance(r, (TypeV, ClsV, TupleV, NoneV)):
            # X | Y: a union of types, usable wherever a tuple of types is
            flat = []
            for x in (l, r):
                flat.extend(x.items if isinstance(x, TupleV) else [TypeV("NoneType") if isinstance(x, NoneV) else x])
            return TupleV(flat)
        dn = _DUNDER.get(op)
        if dn is None:
            I.unsupported(node, "operator")
        # left operand's method
        res = self.call_dunder(l, f"__{dn}__", r, node)
        if isinstance(res, NotImplV):
            res = self.call_dunder(r, f"__r{dn}__", l, node)
        if isinstance(res, NotImplV):
            if isinstance(l, NoneV) or isinstance(r, NoneV):
                self.flag("none-operand", node, f"{l!r} {_OPSYM[op]} {r!r}")
            I.raise_("TypeError", node)
        return res

    def call_dunder(self, v, name, other, node):
        I = self.I
        fi = self.dunder_of(v, name)
        if fi is not None:
            return I.call_function(fi, [v, other], {}, node)
        if isinstance(v, TermV):
            return self.term_binop(name, v, other, node)
        if isinstance(v, (OpaqueV,)):
            return OpaqueV(f"{v.tag}{name}")
        return NOTIMPL

    def unaryop(self, op, v, node):
        if isinstance(v, Num):
            if op is ast.USub:
                return Num(-v.rf, v.kind)
            if op is ast.UAdd:
                return v
        if isinstance(v, BoolV) and op is ast.USub:
            return self.num_const(-int(v.val))
        fi = self.dunder_of(v, {ast.USub: "__neg__", ast.UAdd: "__pos__"}.get(op, "?"))
        if fi is not None:
            return self.I.call_function(fi, [v], {}, node)
        if isinstance(v, OpaqueV):
            return OpaqueV("neg")
        self.I.unsupported(node, f"unary operator on {v!r}")

    # =============================================================== calls
    def call(self, fn, args, kwargs, node):
        I = self.I
        if isinstance(fn, PyFuncV):
            a = ([fn.self_val] if fn.self_val is not None else []) + list(args)
            fi = fn.fi
            impls = getattr(fi.module, "sd_impls", {}).get(fi.name) if fi.cls is None else None
            if impls and a and isinstance(fi.node, ast.FunctionDef) and \
                    any("singledispatch" in src_of(d) for d in fi.node.decorator_list):
                for types, impl in impls:
                    specs = [TypeV(t, self.prog.cls(t)) if self.prog.has_cls(t) else TypeV(t) for t in types]
                    if any(self.isinstance_(a[0], sp, node) for sp in specs):
                        fi = impl
                        break
            return I.call_function(fi, a, kwargs, node, closure=getattr(fn, "closure", None))
        if isinstance(fn, NativeV):
            return fn.fn(args, kwargs, node)
        if isinstance(fn, LambdaV):
            from .interp import Frame
            env = dict(fn.env)
            params = [p.arg for p in fn.node.args.args]
            for p, a in zip(params, args):
                env[p] = a
            I.frames.append(Frame(I.frames[-1].fi, fn.module, fn.cls, env))
            try:
                return I.eval(fn.node.body)
            finally:
                I.frames.pop()
        if isinstance(fn, ClsV):
            return self.construct(fn, args, kwargs, node)
        if isinstance(fn, TypeV):
            return self.call_type(fn, args, kwargs, node)
        if isinstance(fn, FuncV):
            return self.call_builtin(fn.name, args, kwargs, node)
        if isinstance(fn, ConvV):
            return self.call_converter(fn, args, node)
        if isinstance(fn, OpaqueV):
            o = OpaqueV(f"call({fn.tag})")
            return o
        if isinstance(fn, ObjV) and fn.ci is not None:
            fi = self.prog.lookup(fn.ci, "__call__")
            if fi is not None:
                return I.call_function(fi, [fn] + list(args), kwargs, node)
        if isinstance(fn, NoneV):
            I.raise_("TypeError", node)
        I.unsupported(node, f"call of {fn!r}")

    def call_converter(self, conv: ConvV, args, node):
        qty, unit = args[0], args[1]
        self.st.effects.append(("convcall", conv, qty, unit, self.where(node)))
        c = self.I.choose(2, f"conv({getattr(qty, 'name', '?')})", ["None", "amount"])
        if c == 0:
            self.st.effects.append(("convresult", conv, NONE))
            return NONE
        uid = self.st.ufind(unit.uid) if isinstance(unit, UnitV) else "?"
        r = Num(RF.atom(("conv", getattr(qty, "name", "q"), uid)), "exact")
        self.st.effects.append(("convresult", conv, r))
        return r

    def is_exception_class(self, name) -> bool:
        from .interp import _BUILTIN_EXC
        if name in _BUILTIN_EXC:
            return True
        ci = self.prog.classes.get(name)
        seen = set()
        while ci is not None and ci.name not in seen:
            seen.add(ci.name)
            for b in ci.base_names:
                b = b.split(".")[-1]
                if b in _BUILTIN_EXC:
                    return True
            nxt = None
            for b in ci.base_names:
                if b.split(".")[-1] in self.prog.classes:
                    nxt = self.prog.classes[b.split(".")[-1]]
                    break
            ci = nxt
        return False

    def call_type(self, t: TypeV, args, kwargs, node):
        I = self.I
        name = t.name
        if name == "object" and not args:
            return ObjV(None, self.st.fresh("sentinel"))        # a fresh object: equal to and identical with itself only
        if self.is_exception_class(name):
            fr = I.frames[-1] if I.frames else None
            where = f"{fr.fi.qualname}:{getattr(node, 'lineno', '?')}" if fr is not None and fr.fi is not None else None
            return ExcObjV(ExcV(name, tuple(args), node, where))
        if name == "Decimal":
            return self.make_decimal(args, node)
        if name == "Fraction":
            return self.make_fraction(args, node)
        if name == "Term":
            if getattr(self, "term_objects", False):
                return self.instantiate(t.ci or self.prog.cls("Term"), args, kwargs, node)
            return self.make_term(args, kwargs, node)
        if name == "ExchangeRate" and not self.inline_rate_ctor:
            return self.make_rate(args, kwargs, node)
        if name == "tuple":
            if not args:
                return TupleV([])
            seq = self.iterate(args[0], node)
            if seq is None:
                return ListV(None, tag="tuple", opaque_elem=getattr(args[0], "opaque_elem", None))
            return TupleV(seq)
        if name == "list":
            seq = self.iterate(args[0], node) if args else []
            if seq is None:
                return ListV(None, tag="list", opaque_elem=getattr(args[0], "opaque_elem", None))
            return ListV(list(seq))
        if name == "str":
            if args and getattr(self, "text_templates", False):
                return self.text_of(args[0], None, node, how="str")
            sv = StrV(None, f"str({args[0]!r})" if args else "str")
            if args and isinstance(args[0], TermV):
                # the text of a term that is not empty is not empty
                try:
                    if not self.term_is_empty(args[0], node):
                        sv.nonempty = True
                except Exception:       # noqa: BLE001
                    pass
            return sv
        if name == "format" and args and getattr(self, "text_templates", False):
            return self.text_of(args[0], args[1] if len(args) > 1 else StrV(""), node)
        if name == "int":
            v = args[0]
            if isinstance(v, Num):
                rf = self.st.norm(v.rf)
                if rf.is_const() and rf.const_value().denominator == 1:
                    return Num(rf, "int")
                if v.kind == "int" or self.st.integer_valued(rf):
                    return Num(rf, "int")       # int() of an integer / an integer-valued expression is the identity
                self.flag("int-truncation", node, "int() of a non-integral number")
                return Num(self.ufn("int", v.rf), "int")
            if isinstance(v, StrV):
                c = I.choose(2, "int(str)", ["ValueError", "ok"])
                if c == 0:
                    I.raise_("ValueError", node)
                return self.fresh_num("int", "int")
            return OpaqueV("int")
        if name == "float":
            self.flag("float-call", node, "float()")
            v = args[0]
            return Num(v.rf if isinstance(v, Num) else RF.atom(("sym", self.st.fresh("f"))), "float")
        if name == "bool":
            return BoolV(self.truth(args[0], node))
        if name == "type":
            return self.type_of(args[0], node)
        if name == "date":
            vals = list(args) + [kwargs[k_] for k_ in ("year", "month", "day") if k_ in kwargs]
            status = self.date_parts_status(vals)
            if status == "invalid":
                I.raise_("ValueError", node)
            if status != "valid":
                c = I.choose(2, "date()", ["ValueError", "ok"])
                if c == 0:
                    I.raise_("ValueError", node)
            if len(vals) == 3 and all(isinstance(x, Num) for x in vals):
                return DateV("date", *vals)
            return self.fresh_date("date")
        if name == "dict":
            d = DictV()
            if args:
                if isinstance(args[0], DictV):
                    d.items.extend(args[0].items)
                else:
                    seq = self.iterate(args[0], node)
                    if seq is None:
                        I.unsupported(node, "dict() of an opaque iterable")
                    for x in seq:
                        kv = self.unpack(x, 2, node)
                        d.items.append((kv[0], kv[1]))
            for k, v in kwargs.items():
                d.items.append((StrV(k), v))
            return d
        if t.ci is not None and ("NamedTuple" in t.ci.base_names or getattr(t, "nt_fields", None)):
            fields = getattr(t, "nt_fields", None) or t.ci.fields
            vals = list(args)
            for f in fields[len(vals):]:
                if f in kwargs:
                    vals.append(kwargs[f])
                elif t.ci is not None and f in t.ci.attrs:
                    vals.append(self.global_expr(t.ci.module, f"{name}.{f}", t.ci.attrs[f], node))
                else:
                    I.raise_("TypeError", node)
            return NTupleV(vals, fields, name)
        if getattr(t, "nt_fields", None):
            fields = t.nt_fields
            vals = list(args) + [kwargs[f] for f in fields[len(args):] if f in kwargs]
            if len(vals) != len(fields):
                I.raise_("TypeError", node)
            return NTupleV(vals, fields, name)
        if t.ci is not None:
            return self.instantiate(t.ci, args, kwargs, node)
        if name in ("ValueError", "TypeError", "KeyError"):
            return OpaqueV("exception")
        I.unsupported(node, f"call of type {name}")

    def instantiate(self, ci, args, kwargs, node):
        if self.list_class_of(ci) and not kwargs and len(args) <= 1:
            # a list subclass of the package: a list that has the class's methods as well
            seq = self.iterate(args[0], node) if args else []
            if seq is None:
                self.I.unsupported(node, f"{ci.name}() of an opaque iterable")
            lv = ListV(list(seq))
            lv.ci = ci
            return lv
        obj = ObjV(ci, self.st.fresh(ci.name.lower()))
        init = self.prog.lookup(ci, "__init__")
        if init is not None:
            self.I.call_function(init, [obj] + list(args), kwargs, node)
        elif "dataclass" in getattr(ci, "decorators", ()):
            # synthesised __init__ of a dataclass: fields in declaration order, defaults from the class body
            vals = list(args)
            kw = dict(kwargs)
            if len(vals) > len(ci.fields):
                self.I.raise_("TypeError", node)
            for i, f in enumerate(ci.fields):
                if i < len(vals):
                    obj.fields[f] = vals[i]
                elif f in kw:
                    obj.fields[f] = kw.pop(f)
                elif f in ci.attrs:
                    obj.fields[f] = self.global_expr(ci.module, f"{ci.name}.{f}", ci.attrs[f], node)
                else:
                    self.I.raise_("TypeError", node)
            if kw:
                self.I.raise_("TypeError", node)
        return obj

    def type_of(self, v, node):
        if isinstance(v, QtyV):
            return ClsV(v.tid)
        if isinstance(v, NoneV):
            return TypeV("NoneType")
        if isinstance(v, UnitV):
            return TypeV("Unit")
        if isinstance(v, Num):
            return TypeV({"int": "int", "dec": "Decimal", "frac": "Fraction", "float": "float"}.get(v.kind, "number"))
        if isinstance(v, StrV):
            return TypeV("str")
        if isinstance(v, TupleV):
            return TypeV("tuple")
        if isinstance(v, ObjV) and v.ci is not None:
            return TypeV(v.ci.name, v.ci)
        if isinstance(v, OpaqueV):
            kinds = getattr(v, "kinds", None)
            if kinds and len(kinds) == 1 and next(iter(kinds)) in ("date", "int"):
                return TypeV(next(iter(kinds)))
            o = OpaqueV(f"type({v.tag})")
            o.type_of = v
            return o
        return TypeV(type(v).__name__)

    def make_decimal(self, args, node):
        I = self.I
        if not args:
            return self.num_const(0, "dec")
        v = args[0]
        if len(args) >= 2:
            p = args[1]
            prec = int(self.st.norm(p.rf).const_value()) if isinstance(p, Num) and self.st.norm(p.rf).is_const() else None
            if prec is None:
                I.unsupported(node, "Decimal with symbolic precision")
            if isinstance(v, StrV):
                v = self.parse_number(v, node, "Decimal")
            if not isinstance(v, Num):
                I.raise_("TypeError", node)
            self.st.effects.append(("round", prec, v, self.where(node)))
            return Num(self.st.rnd(prec, v.rf), "dec")
        if isinstance(v, Num):
            if v.kind in ("frac", "exact"):
                # a Fraction whose denominator is not 2^a·5^b cannot be represented
                c = I.choose(2, f"Decimal({v.kind})@{getattr(node, 'lineno', '?')}", ["ok", "ValueError"])
                if c == 1:
                    ex = ExcV("ValueError", (), node, self.where(node))
                    ex.tag = "Decimal-of-fraction"
                    raise AbsRaise(ex)
            return Num(v.rf, "dec")
        if isinstance(v, StrV):
            return self.parse_number(v, node, "Decimal")
        if isinstance(v, BoolV):
            return self.num_const(int(v.val), "dec")
        if isinstance(v, OpaqueV):
            c = I.choose(3, f"Decimal(opaque)@{getattr(node, 'lineno', '?')}", ["ok", "ValueError", "TypeError"])
            if c:
                I.raise_(["", "ValueError", "TypeError"][c], node)
            return self.fresh_num("dec", "dec")
        I.raise_("TypeError", node)

    def parse_number(self, s: StrV, node, how):
        if s.const is not None:
            try:
                if how == "Decimal" and "/" in s.const:
                    raise ValueError("a ratio is no decimal literal")
                return Num(RF.const(Fraction(s.const)), "dec" if how == "Decimal" else "frac")
            except ValueError:
                ex = ExcV("ValueError", (), node, self.where(node))
                ex.tag = "parse"
                raise AbsRaise(ex)
            except ZeroDivisionError:
                ex = ExcV("ZeroDivisionError" if how == "Fraction" else "ValueError", (), node, self.where(node))
                ex.tag = "parse"
                raise AbsRaise(ex)
        key = ("parsed", id(s))
        # fractions.Fraction('n/0') raises ZeroDivisionError, not ValueError
        opts = ["ok", "ValueError"] + (["ZeroDivisionError"] if how == "Fraction" else [])
        c = self.I.choose(len(opts), f"{how}(str)@{getattr(node, 'lineno', '?')}", opts)
        self.st.effects.append(("parsed", how, c == 0, self.where(node)))
        if c >= 1:
            ex = ExcV(opts[c], (), node, self.where(node))
            ex.tag = "parse"
            raise AbsRaise(ex)
        n = Num(RF.atom(("parsed", s.tag)), "dec" if how == "Decimal" else "frac")
        n.parsed_from = s
        n.parsed_how = how
        return n

    def make_fraction(self, args, node):
        I = self.I
        if len(args) == 2 and all(isinstance(a, Num) for a in args):
            return Num(args[0].rf / args[1].rf, "frac")
        v = args[0] if args else self.num_const(0)
        if isinstance(v, Num):
            if v.kind == "float":
                c = I.choose(2, "Fraction(float)", ["ok", "ValueError"])   # nan / inf
                if c == 1:
                    ex = ExcV("ValueError", (), node, self.where(node))
                    ex.tag = "non-finite"
                    raise AbsRaise(ex)
            return Num(v.rf, "frac")
        if isinstance(v, StrV):
            return self.parse_number(v, node, "Fraction")
        if isinstance(v, OpaqueV):
            c = I.choose(3, "Fraction(opaque)", ["ok", "ValueError", "TypeError"])
            if c:
                I.raise_(["", "ValueError", "TypeError"][c], node)
            return self.fresh_num("frac", "frac")
        I.raise_("TypeError", node)

    # ---------------------------------------------------------- builtins
    def heap_select(self, largest, k, it, key, node):
        """heapq.nlargest / nsmallest(k, iterable[, key]) == sorted(iterable, key=key, reverse=largest)[:k]"""
        I = self.I
        seq = self.iterate(it, node)
        if seq is None:
            I.unsupported(node, "heap selection from an opaque iterable")
        kw = {"reverse": BoolV(largest)}
        if key is not None and not isinstance(key, NoneV):
            kw["key"] = key
        srt = self.call_builtin("sorted", [ListV(list(seq))], kw, node)
        items = srt.items
        if isinstance(k, Num) and self.st.norm(k.rf).is_const():
            return ListV(items[:max(0, int(self.st.norm(k.rf).const_value()))])
        if not isinstance(k, Num):
            I.unsupported(node, "heap selection with a non-numeric count")
        # symbolic count: one path per value 0..n (n standing for "n or more")
        n_ = len(items)
        c = I.choose(n_ + 1, f"count@{getattr(node, 'lineno', '?')}", [str(i) for i in range(n_)] + [f">={n_}"])
        if c < n_:
            if not self.decide_cmp("==", k, self.num_const(c), node):
                raise Infeasible
        else:
            if not self.decide_cmp(">=", k, self.num_const(n_), node):
                raise Infeasible
        return ListV(items[:c])

    def call_builtin(self, name, args, kwargs, node):
        I = self.I
        if name == "staticmethod" and len(args) == 1:
            return args[0]          # looked up through the class or an instance it is the plain function
        if name == "hasattr" and len(args) == 2 and isinstance(args[1], StrV) and args[1].const is not None:
            o, a = args[0], args[1].const
            if isinstance(o, Num):
                known = {"real", "imag", "numerator", "denominator", "conjugate"}
                if o.kind in ("dec", "exact", "stddec"):
                    known |= {"magnitude", "precision", "adjusted", "quantize", "as_fraction", "as_integer_ratio"}
                if o.kind in ("float",):
                    known |= {"is_integer", "as_integer_ratio", "hex"}
                return BoolV(a in known)
            if isinstance(o, (StrV, NoneV, TupleV, ListV, BoolV)):
                return BoolV(hasattr({StrV: "", NoneV: None, TupleV: (), ListV: [], BoolV: True}[type(o)], a))
            if isinstance(o, ObjV):
                if a in o.fields:
                    return BoolV(True)
                if o.ci is not None:
                    return BoolV(self.prog.lookup(o.ci, a) is not None or self.prog.lookup_attr(o.ci, a) is not None)
                return BoolV(False)
            try:
                self.get_attr(o, a, node)
                return BoolV(True)
            except AbsRaise as ar:
                if ar.exc.name == "AttributeError":
                    return BoolV(False)
                raise
        if name in ("contextlib.suppress", "suppress"):
            o = OpaqueV("suppress")
            o.suppress = [getattr(a, "name", None) or "Exception" for a in args]
            return o
        if name in ("heapq.heapify", "heapq.heappush", "heapq.heappop", "heapq.heappushpop", "heapq.heapreplace"):
            # a heap is modelled as the plain list of its items: popping removes the least item (found by comparisons,
            # which fork on symbolic keys) - for totally ordered items that is what any valid heap layout yields
            h = args[0]
            if not (isinstance(h, ListV) and h.items is not None):
                I.unsupported(node, f"{name} on an opaque list")
            op_ = name.split(".")[1]

            def pop_min():
                if not h.items:
                    I.raise_("IndexError", node)
                bi = 0
                for i in range(1, len(h.items)):
                    if self.truth(self.compare(ast.Lt, h.items[i], h.items[bi], node), node):
                        bi = i
                return h.items.pop(bi)
            if op_ == "heapify":
                return NONE
            if op_ == "heappush":
                h.items.append(args[1])
                return NONE
            if op_ == "heappop":
                return pop_min()
            if op_ == "heappushpop":
                h.items.append(args[1])
                return pop_min()
            if op_ == "heapreplace":
                v_ = pop_min()
                h.items.append(args[1])
                return v_
        if name in ("heapq.nlargest", "heapq.nsmallest", "nlargest", "nsmallest") and len(args) >= 2:
            return self.heap_select(name.split(".")[-1] == "nlargest", args[0], args[1], kwargs.get("key"), node)
        if name == "operator.itemgetter" and len(args) == 1:
            k0 = args[0]
            return NativeV(lambda a2, k2, n: self.get_item(a2[0], k0, n), "itemgetter")
        if name == "operator.attrgetter" and len(args) == 1 and isinstance(args[0], StrV) and args[0].const:
            nm = args[0].const

            def attrget(a2, k2, n, nm=nm):
                v = a2[0]
                for part in nm.split("."):
                    v = self.get_attr(v, part, n)
                return v
            return NativeV(attrget, "attrgetter")
        if name == "operator.methodcaller" and args and isinstance(args[0], StrV) and args[0].const:
            nm, a0, k0 = args[0].const, list(args[1:]), dict(kwargs)
            return NativeV(lambda a2, k2, n: self.call(self.get_attr(a2[0], nm, n), a0, k0, n), "methodcaller")
        if name == "itertools.chain.from_iterable" and args:
            outer = self.iterate(args[0], node)
            if outer is not None:
                out = []
                for x in outer:
                    sq = self.iterate(x, node)
                    if sq is None:
                        out = None
                        break
                    out.extend(sq)
                if out is not None:
                    lv = ListV(out)
                    lv.lazy = True
                    return lv
        if name in ("collections.defaultdict", "collections.OrderedDict"):
            d = DictV()
            rest = list(args)
            if name.endswith("defaultdict"):
                d.default_factory = rest.pop(0) if rest else NONE
            if rest:
                src = rest[0]
                if isinstance(src, DictV):
                    d.items.extend(src.items)
                else:
                    for x in (self.iterate(src, node) or []):
                        kv = self.unpack(x, 2, node)
                        d.items.append((kv[0], kv[1]))
            return d
        if name == "isinstance":
            return BoolV(self.isinstance_(args[0], args[1], node))
        if name == "cast":
            return args[1]
        if name == "len":
            v = args[0]
            if isinstance(v, TupleV):
                return self.num_const(len(v.items))
            if isinstance(v, StrV) and v.const is not None:
                return self.num_const(len(v.const))
            if isinstance(v, GenV):
                I.raise_("TypeError", node)
            if isinstance(v, ListV):
                if v.lazy:
                    I.raise_("TypeError", node)     # generators have no len()
                if v.items is None and not v.len_choices:
                    if v.length is not None:
                        return self.num_const(v.length)
                    n = Num(RF.atom(("len", v.tag)), "int")
                    return n
                return self.num_const(self.list_len(v, node))
            if isinstance(v, TermV):
                return self.term_len(v, node)
            if isinstance(v, ObjV) and v.name == "kwargs":
                return self.num_const(len(v.fields))
            if isinstance(v, DictV):
                distinct = []
                for k, _ in v.items:
                    if not any(self.keys_equal(k, k2, node) for k2 in distinct):
                        distinct.append(k)
                return self.num_const(len(distinct))
            if isinstance(v, ObjV) and v.ci is not None and self.prog.lookup(v.ci, "__len__") is not None:
                return I.call_function(self.prog.lookup(v.ci, "__len__"), [v], {}, node)
            if isinstance(v, (OpaqueV, GlobalMapV, StrV)):
                return Num(RF.atom(("len", getattr(v, "tag", getattr(v, "name", "?")))), "int")
            I.unsupported(node, f"len of {v!r}")
        if name == "abs":
            v = args[0]
            if isinstance(v, Num):
                return Num(self.ufn("abs", v.rf), v.kind)
            fi = self.dunder_of(v, "__abs__")
            if fi:
                return I.call_function(fi, [v], {}, node)
            return OpaqueV("abs")
        if name == "round":
            v = args[0]
            if isinstance(v, Num):
                nd = args[1] if len(args) > 1 else self.num_const(0)
                r = self.ufn("round", v.rf)
                self.st.effects.append(("pyround", v, nd, self.where(node)))
                return Num(r, v.kind if v.kind != "float" else "float")
            fi = self.dunder_of(v, "__round__")
            if fi:
                return I.call_function(fi, [v] + args[1:], {}, node)
            I.unsupported(node, "round")
        if name == "hash":
            v = args[0]
            fi = self.dunder_of(v, "__hash__")
            if fi is not None:
                h = I.call_function(fi, [v], {}, node)
                if not isinstance(h, (HashV, Num, OpaqueV)):
                    # __hash__ method should return an integer
                    self.flag("bad-hash", node, f"__hash__ returns {h!r}")
                    I.raise_("TypeError", node)
                return h
            return HashV(v)
        if name in ("format",):
            if args and getattr(self, "text_templates", False):
                return self.text_of(args[0], args[1] if len(args) > 1 else StrV(""), node)
            return StrV(None, "formatted")
        if name == "repr":
            return StrV(None, "repr")
        if name == "reversed":
            v = args[0]
            if isinstance(v, ListV) and v.items is None:
                r = ListV(None, tag=f"reversed({v.tag})", opaque_elem=v.opaque_elem)
                r.reversed_of = v
                return r
            seq = self.iterate(v, node)
            if seq is None:
                I.unsupported(node, "reversed of opaque")
            return ListV(list(reversed(seq)))
        if name in ("iter",):
            v = args[0]
            if type(v).__name__ == "IterV":
                return v            # iter(iterator) is the iterator itself
            seq = self.iterate(v, node)
            if seq is None:
                return v
            return IterV(seq)
        if name == "get_dflt_rounding_mode":
            if getattr(self.st, "at_class_creation", False):
                e = EnumV("ROUNDING", "<the default mode when the class was created>")
                e.origin = "stale default"
                return e
            e = EnumV("ROUNDING", None)
            e.origin = "default"
            e.epoch = self.st.epoch
            return e
        if name.startswith("operator."):
            opn = name.split(".")[1]
            amap = {"lt": ast.Lt, "le": ast.LtE, "gt": ast.Gt, "ge": ast.GtE, "eq": ast.Eq, "ne": ast.NotEq}
            if opn in amap:
                return self.compare(amap[opn], args[0], args[1], node)
            bmap = {"mul": ast.Mult, "truediv": ast.Div, "add": ast.Add, "sub": ast.Sub, "pow": ast.Pow}
            if opn in bmap:
                return self.binop(bmap[opn], args[0], args[1], node)
            I.unsupported(node, name)
        if name.startswith("math."):
            self.flag("math-call", node, name)
            v = args[0]
            kind = "int" if name in ("math.floor", "math.ceil", "math.trunc") else "float"
            return Num(self.ufn(name, v.rf) if isinstance(v, Num) else RF.atom(("sym", self.st.fresh("m"))), kind)
        if name == "re.compile":
            return self.regex_compile(args, kwargs, node)
        if name in ("re.fullmatch", "re.match", "re.search") and len(args) >= 2:
            rx = self.regex_compile([args[0]] + list(args[2:3]), kwargs, node)
            return self.regex_apply(rx, name.split(".")[1], args[1], node)
        if name == "min" or name == "max":
            if all(isinstance(a, Num) for a in args):
                rfs = [self.st.norm(a.rf) for a in args]
                if all(r.is_const() for r in rfs):
                    f = min if name == "min" else max
                    return Num(RF.const(f(r.const_value() for r in rfs)), "int")
                # selection by comparisons: the outcome of each comparison becomes a fact of the path
                best = args[0]
                for a in args[1:]:
                    if self.decide_cmp("<" if name == "min" else ">", a, best, node):
                        best = a
                return best
            # general form: selection by comparisons (iterable argument, key=, default=)
            items = list(args) if len(args) > 1 else (self.iterate(args[0], node) if args else None)
            if items is None:
                return OpaqueV(name)
            keyf = kwargs.get("key")
            if not items:
                if "default" in kwargs:
                    return kwargs["default"]
                I.raise_("ValueError", node)
            kf = (lambda x: self.call(keyf, [x], {}, node)) if keyf is not None and not isinstance(keyf, NoneV) else (lambda x: x)
            best, kb = items[0], kf(items[0])
            for x in items[1:]:
                kx = kf(x)
                if self.truth(self.compare(ast.Lt if name == "min" else ast.Gt, kx, kb, node), node):
                    best, kb = x, kx
            return best
        if name == "divmod":
            ratio = self.simplify_numden(args[0].rf / args[1].rf)
            q = Num(self.ufn("floordiv", ratio), "int")
            r = Num(self.ufn("mod", ratio), "int")
            return TupleV([q, r])
        if name == "zip":
            seqs = []
            for a in args:
                sq = self.iterate(a, node)
                if sq is None and isinstance(a, TermV) and a.items is not None:
                    sq = [TupleV([e, x]) for e, x in a.items]
                seqs.append(sq)
            if all(sq is not None for sq in seqs):
                return ListV([TupleV(list(t)) for t in zip(*seqs)])
        if name in ("all", "any") and args:
            sq = self.iterate(args[0], node)
            if sq is not None:
                vals = [self.truth(x, node) for x in sq]
                return BoolV(all(vals) if name == "all" else any(vals))
        if name == "range" and len(args) == 1 and isinstance(args[0], Num) and self.st.norm(args[0].rf).is_const():
            n_ = int(self.st.norm(args[0].rf).const_value())
            return ListV([self.num_const(i) for i in range(n_)])
        if name == "map" and len(args) >= 2:
            seqs = [self.iterate(a, node) for a in args[1:]]
            if all(sq is not None for sq in seqs):
                self.st.effects.append(("map", args[0], seqs, self.where(node)))
                return ListV([self.call(args[0], list(t), {}, node) for t in zip(*seqs)])
        if name == "map" and len(args) == 2:
            # opaque source: no element at all, or one symbolic element standing for all
            if not getattr(args[1], "nonempty", False) and \
                    I.choose(2, f"loop@{getattr(node, 'lineno', '?')}", ["0-iter", ">=1-iter"]) == 0:
                lv = ListV([])
                lv.lazy = True
                return lv
            lv = ListV(None, tag="map", opaque_elem=self.call(args[0], [self.opaque_element(args[1], node)], {}, node))
            lv.lazy = True
            lv.src_iter = args[1]
            lv.nonempty = True
            return lv
        if name == "filter" and len(args) == 2:
            pred, src = args
            sq = self.iterate(src, node)

            def keeps(x):
                return self.truth(x if isinstance(pred, NoneV) else self.call(pred, [x], {}, node), node)
            if sq is not None:
                lv = ListV([x for x in sq if keeps(x)])
                lv.lazy = True
                return lv
            elem = self.opaque_element(src, node)
            if keeps(elem):
                lv = ListV(None, tag="filter", opaque_elem=elem)
                lv.src_iter = src
                lv.nonempty = getattr(src, "nonempty", False)
            else:
                lv = ListV([])      # the representative element is dropped: nothing passes
            lv.lazy = True
            return lv
        if name == "enumerate" and args:
            sq = self.iterate(args[0], node)
            if sq is not None:
                start = kwargs.get("start", args[1] if len(args) > 1 else None)
                s0 = 0
                if isinstance(start, Num) and self.st.norm(start.rf).is_const():
                    s0 = int(self.st.norm(start.rf).const_value())
                elif start is not None:
                    I.unsupported(node, "enumerate with a symbolic start")
                lv = ListV([TupleV([self.num_const(i), x]) for i, x in enumerate(sq, s0)])
                lv.lazy = True
                return lv
        if name in ("itertools.product", "itertools.zip_longest", "itertools.islice", "itertools.starmap",
                    "itertools.accumulate", "itertools.repeat", "itertools.takewhile", "itertools.dropwhile",
                    "itertools.combinations", "itertools.permutations"):
            import itertools as _it
            short = name.split(".")[1]
            def const_int(v):
                if isinstance(v, NoneV):
                    return None
                if isinstance(v, Num) and self.st.norm(v.rf).is_const():
                    return int(self.st.norm(v.rf).const_value())
                I.unsupported(node, f"{name} with a symbolic count")
            res = None
            if short == "product":
                seqs = [self.iterate(a, node) for a in args]
                if all(sq is not None for sq in seqs):
                    rep = const_int(kwargs["repeat"]) if "repeat" in kwargs else 1
                    res = [TupleV(list(t)) for t in _it.product(*seqs, repeat=rep)]
            elif short == "zip_longest":
                seqs = [self.iterate(a, node) for a in args]
                if all(sq is not None for sq in seqs):
                    res = [TupleV(list(t)) for t in _it.zip_longest(*seqs, fillvalue=kwargs.get("fillvalue", NONE))]
            elif short == "islice":
                sq = self.iterate(args[0], node)
                if sq is not None:
                    res = list(_it.islice(sq, *[const_int(a) for a in args[1:]]))
            elif short == "starmap":
                sq = self.iterate(args[1], node)
                if sq is not None:
                    res = []
                    for t in sq:
                        it = self.iterate(t, node)
                        if it is None:
                            res = None
                            break
                        res.append(self.call(args[0], list(it), {}, node))
            elif short == "accumulate":
                sq = self.iterate(args[0], node)
                if sq is not None:
                    f = args[1] if len(args) > 1 else kwargs.get("func")
                    res = []
                    acc = kwargs.get("initial")
                    if acc is not None and not isinstance(acc, NoneV):
                        res.append(acc)
                    else:
                        acc = None
                    for x in sq:
                        if acc is None:
                            acc = x
                        elif f is None or isinstance(f, NoneV):
                            acc = self.binop(ast.Add, acc, x, node)
                        else:
                            acc = self.call(f, [acc, x], {}, node)
                        res.append(acc)
            elif short == "repeat" and len(args) == 2:
                res = [args[0]] * (const_int(args[1]) or 0)
            elif short in ("combinations", "permutations"):
                sq = self.iterate(args[0], node)
                if sq is not None:
                    r_ = const_int(args[1]) if len(args) > 1 else None
                    res = [TupleV(list(t)) for t in getattr(_it, short)(sq, r_)]
            elif short in ("takewhile", "dropwhile"):
                sq = self.iterate(args[1], node)
                if sq is not None:
                    flags = [self.truth(self.call(args[0], [x], {}, node), node) for x in sq]
                    n_ = 0
                    while n_ < len(flags) and flags[n_]:
                        n_ += 1
                    res = sq[:n_] if short == "takewhile" else sq[n_:]
            if res is not None:
                lv = ListV(res)
                lv.lazy = True
                return lv
        if name == "itertools.chain":
            out = []
            for a in args:
                sq = self.iterate(a, node)
                if sq is None:
                    out = None
                    break
                out.extend(sq)
            if out is not None:
                lv = ListV(out)
                lv.lazy = True
                return lv
        if name == "functools.reduce" and len(args) >= 2:
            sq = self.iterate(args[1], node)
            if sq is not None:
                if len(args) > 2:
                    acc = args[2]
                elif sq:
                    acc, sq = sq[0], sq[1:]
                else:
                    I.raise_("TypeError", node)
                for x in sq:
                    acc = self.call(args[0], [acc, x], {}, node)
                return acc
        if name == "itertools.groupby" and args:
            sq = self.iterate(args[0], node)
            keyf = kwargs.get("key", args[1] if len(args) > 1 else None)
            if sq is not None:
                groups = []
                for x in sq:
                    k = self.call(keyf, [x], {}, node) if keyf is not None else x
                    if groups and self.keys_equal(groups[-1][0], k, node):
                        groups[-1][1].append(x)
                    else:
                        groups.append((k, [x]))
                lv = ListV([TupleV([k, IterV(g)]) for k, g in groups])
                lv.lazy = True
                return lv
        if name == "sorted" and args and kwargs.get("key") is not None:
            sq = self.iterate(args[0], node)
            if sq is not None:
                out = self.stable_sort(sq, kwargs["key"], kwargs.get("reverse"), node)
                self.st.effects.append(("sorted", sq, kwargs.get("reverse"), kwargs["key"], self.where(node)))
                return ListV(out)
        if name == "sorted" and args:
            sq = self.iterate(args[0], node)
            if sq is not None and sq and all(isinstance(x, (Num, BoolV)) for x in sq):
                # plain numbers: ordered by comparisons whose outcomes become facts of the path (consistent with every
                # other comparison of the same numbers)
                ident = NativeV(lambda a_, k_, n_: a_[0], "identity")
                return ListV(self.stable_sort(sq, ident, kwargs.get("reverse"), node))
            if sq is not None and not all(isinstance(x, Num) for x in sq) and not (
                    sq and all(isinstance(x, (TupleV, NTupleV)) and x.items and isinstance(x.items[0], Num)
                               and not self.st.norm(x.items[0].rf).is_const() for x in sq)):
                # items that are not plain symbolic numbers / (symbolic number, ...) records: order them by comparisons
                rev = kwargs.get("reverse")
                out = []
                for x in sq:
                    pos = len(out)
                    for i, y in enumerate(out):
                        if self.truth(self.compare(ast.Lt, x, y, node), node):
                            pos = i
                            break
                    out.insert(pos, x)
                if rev is not None and self.truth(rev, node):
                    out.reverse()
                return ListV(out)
            if sq is not None and len(sq) <= 4:
                # the order of symbolic keys is unknown: every permutation is a path
                import itertools
                perms = list(itertools.permutations(range(len(sq))))
                rev = kwargs.get("reverse")
                self.st.effects.append(("sorted", sq, rev, kwargs.get("key"), self.where(node)))
                k = self.I.choose(len(perms), f"sorted-order@{getattr(node, 'lineno', '?')}",
                                  ["".join(map(str, p_)) for p_ in perms]) if len(perms) > 1 else 0
                return ListV([sq[i] for i in perms[k]])
        if name in ("sorted", "map", "zip", "enumerate", "range", "filter"):
            self.st.effects.append((name, args, kwargs, self.where(node)))
            lv = ListV(None, tag=name)
            lv.src = (name, args, kwargs)
            return lv
        if name in ("all", "any"):
            return OpaqueV(name)
        if name == "next":
            it = args[0]
            if isinstance(it, IterV):
                if it.pos >= len(it.seq):
                    if len(args) > 1:
                        return args[1]
                    I.raise_("StopIteration", node)
                it.pos += 1
                return it.seq[it.pos - 1]
            if isinstance(it, GenV) or (isinstance(it, ListV) and getattr(it, "lazy", False)):
                sq = self.iterate(it, node)
                if sq is not None:
                    if sq:
                        return sq[0]
                elif getattr(it, "nonempty", False) or \
                        I.choose(2, f"loop@{getattr(node, 'lineno', '?')}", ["0-iter", ">=1-iter"]) == 1:
                    return self.opaque_element(it, node)
                if len(args) > 1:
                    return args[1]
                I.raise_("StopIteration", node)
            return OpaqueV("next")
        if name == "builtin_sum":
            it = args[0]
            seq = None
            if isinstance(it, IterV):
                seq = it.seq[it.pos:]
                it.pos = len(it.seq)
            else:
                seq = self.iterate(it, node)
            if seq is None:
                return OpaqueV("sum")
            acc = args[1] if len(args) > 1 else kwargs.get("start", self.num_const(0))
            for x in seq:
                acc = self.binop(ast.Add, acc, x, node)
            return acc
        if name == "object.__new__":
            return self.raw_new(args, node)
        if name == "MappingProxyType":
            return DictV()
        if name.startswith("date."):
            m = name.split(".")[1]
            if m == "fromisoformat":
                return self.date_from_text(args[0] if args else None, node)
            if m == "today":
                return DateV("today", *(Num(RF.atom(("k", f"today.{f}")), "int") for f in ("year", "month", "day")))
        if name == "getattr" and len(args) >= 2 and isinstance(args[1], StrV) and args[1].const is not None:
            try:
                return self.get_attr(args[0], args[1].const, node)
            except AbsRaise as ar:
                if ar.exc.name == "AttributeError" and len(args) > 2:
                    return args[2]
                raise
        if name == "vars" and len(args) == 1 and isinstance(args[0], ClsV):
            # the class's own namespace: what was stored on the class itself on this path
            tid_ = self.st.tfind(args[0].tid)
            return DictV([(StrV(a_), v_) for (t_, a_), v_ in self.st.cls_fields.items() if self.st.tfind(t_) == tid_])
        if name == "setattr" and len(args) == 3 and isinstance(args[1], StrV) and args[1].const is not None:
            self.set_attr(args[0], args[1].const, args[2], node)
            return NONE
        if name in ("set", "frozenset") and args:
            sq = self.iterate(args[0], node)
            if sq is not None:
                out = []
                for x in sq:
                    if not any(self.keys_equal(x, y, node) for y in out):
                        out.append(x)
                return ListV(out)
        if name == "callable" and args and isinstance(args[0], (PyFuncV, FuncV, NativeV, LambdaV, TypeV, ClsV)):
            return BoolV(True)
        if name == "callable" and args and isinstance(args[0], (Num, StrV, NoneV, TupleV, UnitV, QtyV)):
            return BoolV(False)
        if name in ("callable", "id", "getattr", "issubclass", "set", "frozenset"):
            return OpaqueV(name)
        if "." in name and name.split(".")[0] not in ("operator", "math", "date", "itertools", "functools", "object"):
            # a library function the models know nothing about: its result is opaque
            o = OpaqueV(f"call({name})")
            o.call_args = args
            return o
        if name == "functools.partial" and args:
            f0, a0, k0 = args[0], list(args[1:]), dict(kwargs)
            return NativeV(lambda a2, k2, n: self.call(f0, a0 + list(a2), {**k0, **k2}, n), "functools.partial")
        if name.startswith("itertools.") or name.startswith("functools."):
            return ListV(None, tag=name)
        I.unsupported(node, f"builtin {name}")

    def raw_new(self, args, node):
        c = args[0]
        if isinstance(c, ClsV):
            q = QtyV(None, None, c.tid, name=self.st.fresh("raw"), fresh=True)
            self.st.effects.append(("rawnew", q, self.where(node)))
            return q
        if isinstance(c, TypeV) and c.ci is not None and c.name in ("QuantityMeta", "MoneyMeta",
                                                                   "ClassWithDefinitionMeta"):
            # type.__new__(mcs, name, bases, clsdict): a new quantity class
            tid = self.st.new_type(money=True if c.name == "MoneyMeta" else None)
            self.st.T(tid).under_creation = True        # class attributes not yet assigned are the base class's
            cv = ClsV(tid)
            self.st.effects.append(("newclass", cv, self.where(node)))
            return cv
        if isinstance(c, TypeV) and c.ci is not None:
            return ObjV(c.ci, self.st.fresh(c.name.lower()))
        if isinstance(c, TypeV):
            o = ObjV(None, self.st.fresh("rawunit"))
            return o
        self.I.unsupported(node, "object.__new__ of unknown class")

    # =============================================================== constructor summary (K11)
    def construct(self, cls: ClsV, args, kwargs, node):
        I = self.I
        st = self.st
        new = self.prog.method("Quantity", "__new__")
        if self.inline_ctor:
            return I.call_function(new, [cls] + list(args), kwargs, node)
        params = [p.arg for p in new.node.args.args][1:]
        if len(args) > 2 or any(k not in params[:2] for k in kwargs):
            # the summary describes Quantity(amount, unit); a call that passes anything else (a further parameter of
            # an extended constructor) is evaluated on the constructor's own code
            return I.call_function(new, [cls] + list(args), kwargs, node)
        vals = dict(zip(params, args))
        vals.update(kwargs)
        amount = vals.get(params[0])
        unit = vals.get(params[1], NONE) if len(params) > 1 else NONE
        st.effects.append(("construct", cls, amount, unit, self.where(node)))
        if amount is None:
            I.raise_("TypeError", node)
        if isinstance(amount, StrV):
            return self.construct_from_str(cls, amount, unit, node)
        if isinstance(amount, BoolV):
            amount = self.num_const(int(amount.val), "bool")
        if not isinstance(amount, Num):
            if isinstance(amount, OpaqueV):
                amount = self.fresh_num("opaque-amount")
            else:
                if isinstance(amount, (NoneV, QtyV, UnitV, TupleV)):
                    self.flag("bad-amount", node, f"constructor called with amount {amount!r}")
                ex = ExcV("TypeError", (), node, self.where(node))
                ex.tag = "ctor-amount"
                raise AbsRaise(ex)
        if amount.kind == "stddec":
            amount = Num(amount.rf, "dec")
        if amount.kind == "float":
            amount = Num(amount.rf, "exact")    # Decimal(float) / Fraction(float) are exact
        elif amount.kind in ("int", "bool"):
            amount = Num(amount.rf, "dec")
        if isinstance(unit, NoneV):
            t = st.T(cls.tid)
            if t.generic or not self.decide_has_ref(cls.tid, node):
                ex = ExcV("QuantityError", (), node, self.where(node))
                ex.tag = "ctor-no-unit"
                raise AbsRaise(ex)
            unit = UnitV(st.ref_unit(cls.tid))
        elif not isinstance(unit, UnitV):
            if isinstance(unit, OpaqueV):
                I.unsupported(node, "constructor with opaque unit")
            ex = ExcV("TypeError", (), node, self.where(node))
            ex.tag = "ctor-unit"
            raise AbsRaise(ex)
        utid = self.type_of_unit(unit)
        if st.T(cls.tid).generic:
            tid = utid
        else:
            if not self.decide_same_type(cls.tid, utid, node, "ctor"):
                ex = ExcV("QuantityError", (), node, self.where(node))
                ex.tag = "ctor-unit-type"
                raise AbsRaise(ex)
            tid = st.tfind(cls.tid)
        q = self.unit_quantum_contract(unit, node)
        rf = amount.rf
        kind = amount.kind
        if q is not None:
            rf = st.rnd(0, rf / q) * q
            kind = "exact"
        res = QtyV(Num(rf, kind), unit, tid, name=st.fresh("q"), fresh=True)
        return res

    def construct_from_str(self, cls, s, unit, node):
        I = self.I
        c = I.choose(2, "ctor(str)", ["QuantityError", "ok"])
        if c == 0:
            ex = ExcV("QuantityError", (), node, self.where(node))
            ex.tag = "ctor-str"
            raise AbsRaise(ex)
        tid = self.st.new_type() if self.st.T(cls.tid).generic else cls.tid
        u = unit if isinstance(unit, UnitV) else UnitV(self.st.new_unit(tid))
        return QtyV(self.fresh_num("parsed"), u, self.type_of_unit(u), name=self.st.fresh("q"), fresh=True)

    # =============================================================== Term ADT
    def make_term(self, args, kwargs, node):
        I = self.I
        items_v = args[0] if args else kwargs.get("items", TupleV([]))
        if isinstance(items_v, TermV) and getattr(items_v, "as_items", False):
            # Term(<slice of the items of an abstract term>): the term those items denote
            r = TermV(items_v.mag, dict(items_v.dims), items=None, normalized=False, origin=items_v.origin)
            r.empty = items_v.empty
            r.part_of = getattr(items_v, "part_of", None)
            r.num_choice = 0            # the items after the numeric element: none of them is numeric
            r.pure = True
            return r
        seq = self.iterate(items_v, node)
        if seq is None:
            t = TermV(RF.atom(("termmag", self.st.fresh("t"))), {"?": (1, 0)})
            return t
        mag = RF.const(1)
        dims: Dict[str, tuple] = {}
        items = []
        for it in seq:
            if not isinstance(it, TupleV) or len(it.items) != 2:
                I.unsupported(node, "term item")
            elem, exp = it.items
            if not isinstance(exp, Num):
                I.unsupported(node, "term exponent")
            e = self.exp_of(exp, node)
            if e is None:
                I.unsupported(node, "non-linear term exponent")
            items.append((elem, exp))
            if isinstance(elem, UnitV):
                mag = mag * self.mu(elem).pow_sym(e)
                tid = self.type_of_unit(elem)
                o = dims.get(tid, (0, 0))
                dims[tid] = (o[0] + e[0], o[1] + e[1])
            elif isinstance(elem, Num):
                mag = mag * self.st.norm(elem.rf).pow_sym(e)
            elif isinstance(elem, ClsV):
                mag = mag * RF.atom(("rho", self.st.tfind(elem.tid))).pow_sym(e)
                o = dims.get(elem.tid, (0, 0))
                dims[elem.tid] = (o[0] + e[0], o[1] + e[1])
            elif isinstance(elem, OpaqueV):
                mag = mag * RF.atom(("elem", elem.tag)).pow_sym(e)
                dims["?" + elem.tag] = e
            else:
                I.unsupported(node, f"term element {elem!r}")
        return TermV(mag, dims, items=items)

    def mark_dimensionless(self, t: TermV):
        """The term's dimensions cancel on this path: no unit is, or will ever be, registered for it (nor for the
        term it is the normal form of)."""
        todo, seen = [t], []
        while todo:
            x = todo.pop()
            if not isinstance(x, TermV) or any(x is y for y in seen):
                continue
            seen.append(x)
            dk_ = tuple(sorted((self.st.tfind(k_), e_) for k_, e_ in self.norm_dims(x.dims).items() if e_ != (0, 0)))
            self.st.rf_table_set("never", (x.mag,), dk_, True)
            todo += [getattr(x, "norm_of", None), getattr(x, "part_of", None)]

    def term_is_empty(self, t: TermV, node) -> bool:
        was_open = t.empty is None
        r = self._term_is_empty(t, node)
        if was_open and r:
            self.mark_dimensionless(t)
        return r

    def _term_is_empty(self, t: TermV, node) -> bool:
        if t.empty is None:
            can_zero, must_zero = self.dims_zero(t)
            if must_zero and t.items is not None and not t.items:
                t.empty = True
            elif must_zero:
                # dimensionless: empty unless a numeric item remains
                c = self.I.choose(2, f"term-empty@{getattr(node, 'lineno', '?')}", ["numeric-only", "empty"])
                t.empty = bool(c)
            elif not can_zero:
                t.empty = False
            else:
                c = self.I.choose(2, f"term-empty@{getattr(node, 'lineno', '?')}", ["nonempty", "empty"])
                t.empty = bool(c)
            if t.empty and (t.normalized or getattr(t, "pure", False)) and getattr(t, "num_choice", None) == 0:
                # an empty normal form without numeric element denotes one
                self.st.equate(t.mag, RF.const(1))
        return t.empty

    def term_len(self, t: TermV, node):
        if t.items is not None and not t.normalized:
            return self.num_const(len(t.items))
        return Num(RF.atom(("len", "term")), "int")

    def term_attr(self, t: TermV, attr, node):
        I = self.I
        st = self.st
        if attr == "normalized":
            def normalized(a, k, n):
                r = TermV(t.mag, dict(t.dims), items=None, normalized=True, origin=t.origin or ("norm", id(t)))
                r.norm_of = t
                r.empty = None
                return r
            return NativeV(normalized, "Term.normalized")
        if attr == "num_elem":
            return self.term_num_elem(t, node)
        if attr == "split":
            def split(a, k, n):
                return self.term_split(t, a, n)
            return NativeV(split, "Term.split")
        if attr == "reciprocal":
            def recip(a, k, n):
                return TermV(t.mag.inv(), {k_: (-e[0], -e[1]) for k_, e in t.dims.items()})
            return NativeV(recip, "Term.reciprocal")
        if attr == "items":
            if t.items is not None:
                return TupleV([TupleV([e, x]) for e, x in t.items])
            return ListV(None, tag="term.items")
        if attr == "is_normalized":
            return BoolV(t.normalized)
        I.unsupported(node, f"Term.{attr}")

    def ref_product(self, t: TermV):
        """Product of the reference units a normal form over `t`'s dimensions consists of - when every type
        involved is a base type known to have a reference unit; otherwise None."""
        st = self.st
        P = RF.const(1)
        for k, e in self.norm_dims(t.dims).items():
            if e == (0, 0):
                continue
            if k not in st.tparent or st.T(k).has_ref is not True or st.dims_of_type(k) != {st.tfind(k): (1, 0)}:
                return None
            P = P * self.rho(k).pow_sym(e)
        return P

    def term_num_elem(self, t: TermV, node):
        """Numeric factor of a term: only meaningful as a scale when the term is normalised."""
        self.st.effects.append(("num_elem", t.normalized, self.where(node)))
        tag = getattr(t, "num_choice", None)
        if tag is None:
            P = self.ref_product(t) if t.normalized else None
            if P is not None:
                # normal form over reference units: the numeric factor is the term's value over their product
                val = self.st.norm(t.mag / P)
                if val.is_const():
                    t.num_choice = 0 if val.const_value() == 1 else 1
                    t.nu = val
                    return NONE if t.num_choice == 0 else Num(t.nu, "anyrat")
            c = self.I.choose(2, f"num_elem@{getattr(node, 'lineno', '?')}", ["none", "numeric"])
            t.num_choice = c
            if c == 0 and t.normalized and t.empty is True:
                self.st.equate(t.mag, RF.const(1))      # an empty normal form without numeric element denotes one
            if P is not None:
                if c == 0:
                    self.st.equate(t.mag, P)        # no numeric element: the value is the product itself
                else:
                    t.nu = self.st.norm(t.mag / P)
            elif c == 1:
                # (the numeric factor of a term is a function of the term)
                t.nu = RF.atom(("nu", self.st.fresh_keyed("nu", (t.mag,), tuple(sorted(self.norm_dims(t.dims).items())))))
        if t.num_choice == 0:
            return NONE
        # the numeric element of a term keeps the type it was given with (a plain int stays an int)
        return Num(self.st.norm(t.nu), "anyrat")

    def term_materialize(self, t: TermV, n: int, node):
        """Item view [(element, exponent)] of an abstract, non-normalised unit term that is taken apart: an optional
        numeric item (with an exponent of its own), then one unit per dimension; the last unit's magnitude is
        whatever makes the items denote the term's value."""
        st = self.st
        m = getattr(t, "mat", None)
        if m is not None:
            if len(m) != n:
                self.I.raise_("ValueError", node)
            return m
        dims = [(k, e) for k, e in self.norm_dims(t.dims).items() if e != (0, 0)]
        if any(e[1] != 0 or k not in st.tparent for k, e in dims):
            self.I.unsupported(node, f"unpack of {t!r}")
        extra = n - len(dims)
        if extra not in (0, 1) or not dims:
            self.I.unsupported(node, f"unpack of {t!r} into {n} items")
        items = []
        rest = st.norm(t.mag)
        if extra == 1:
            k = RF.atom(("k", st.fresh("defnum")))
            c = self.I.choose(2, f"numeric-item-exponent@{getattr(node, 'lineno', '?')}", ["1", "n"])
            e = Num(RF.const(1), "int") if c == 0 else Num(RF.atom(N_ATOM), "int")
            items.append((Num(k, "anyrat"), e))
            rest = rest / (k if c == 0 else k.pow_sym((0, 1)))
        for i, (tid, e) in enumerate(dims):
            last = i == len(dims) - 1
            if last:
                if e[0] not in (1, -1):
                    self.I.unsupported(node, f"unpack of {t!r}")
                mu = rest if e[0] == 1 else rest.inv()
                u = UnitV(st.new_unit(tid, mu=mu))
            else:
                u = UnitV(st.new_unit(tid))
                rest = rest / self.mu(u).pow_int(e[0])
            items.append((u, Num(RF.const(e[0]), "int")))
        t.mat = items
        return items

    def term_split(self, t: TermV, args, node):
        I = self.I
        can_zero, must_zero = self.dims_zero(t)
        opts = []
        if can_zero:
            opts.append("empty-remainder")
        if not must_zero:
            opts += ["numeric+remainder", "no-numeric"]
        c = I.choose(len(opts), f"split@{getattr(node, 'lineno', '?')}", opts)
        o = opts[c]
        dflt = args[0] if args else Num(RF.const(1), "dec")
        if o == "empty-remainder":
            # the dimensions cancel: no unit is or will ever be registered for this term
            self.mark_dimensionless(t)
            rest = TermV(RF.const(1), {}, items=[], normalized=True)
            rest.empty = True
            return TupleV([Num(t.mag, "exact"), rest])
        if o == "numeric+remainder":
            nu = RF.atom(("nu", self.st.fresh_keyed("nu", (t.mag,), tuple(sorted(self.norm_dims(t.dims).items())))))
            rest = TermV(t.mag / nu, dict(t.dims), normalized=True, origin=("split", id(t)))
            rest.empty = False
            return TupleV([Num(nu, "exact"), rest])
        t.empty = False
        return TupleV([dflt, t])

    def term_getitem(self, t: TermV, key, node):
        if t.items is not None and isinstance(key, Num) and key.rf.is_const():
            i = int(key.rf.const_value())
            try:
                e, x = t.items[i]
            except IndexError:
                self.I.raise_("IndexError", node)
            return TupleV([e, x])
        return OpaqueV("term-item")

    def term_binop(self, name, t: TermV, other, node):
        if name in ("__mul__", "__rmul__"):
            if isinstance(other, TermV):
                dims = dict(t.dims)
                for k, e in other.dims.items():
                    o = dims.get(k, (0, 0))
                    dims[k] = (o[0] + e[0], o[1] + e[1])
                return TermV(t.mag * other.mag, dims)
            if isinstance(other, Num) and is_exact_kind(other.kind):
                return TermV(t.mag * other.rf, dict(t.dims))
            return NOTIMPL
        if name == "__truediv__":
            if isinstance(other, TermV):
                dims = dict(t.dims)
                for k, e in other.dims.items():
                    o = dims.get(k, (0, 0))
                    dims[k] = (o[0] - e[0], o[1] - e[1])
                return TermV(t.mag / other.mag, dims)
            if isinstance(other, Num) and is_exact_kind(other.kind):
                return TermV(t.mag / other.rf, dict(t.dims))
            return NOTIMPL
        if name == "__rtruediv__":
            if isinstance(other, Num) and is_exact_kind(other.kind):
                return TermV(other.rf / t.mag, {k: (-e[0], -e[1]) for k, e in t.dims.items()})
            return NOTIMPL
        if name == "__pow__":
            if isinstance(other, Num):
                e = self.exp_of(other, node)
                if e is None:
                    self.I.unsupported(node, "term power")
                dims = {}
                for k, d in t.dims.items():
                    if d[1] != 0 and e[1] != 0:
                        self.I.unsupported(node, "term power n*n")
                    dims[k] = (d[0] * e[0], d[0] * e[1] + d[1] * e[0])
                return TermV(self.st.norm(t.mag).pow_sym(e), dims)
            return NOTIMPL
        return NOTIMPL

    def term_cmp(self, dn, l: TermV, r, node):
        if dn not in ("__eq__", "__ne__"):
            return NOTIMPL
        if not isinstance(r, TermV):
            return NOTIMPL
        neg = dn == "__ne__"
        if l is r or getattr(l, "norm_of", None) is r or getattr(r, "norm_of", None) is l:
            return BoolV(not neg)
        a, b = self.st.norm(l.mag), self.st.norm(r.mag)
        if self.norm_dims(l.dims) != self.norm_dims(r.dims):
            return BoolV(neg)
        # single-unit terms: equal exactly when the units are identical
        if l.items is not None and r.items is not None and len(l.items) == 1 and len(r.items) == 1 \
                and isinstance(l.items[0][0], UnitV) and isinstance(r.items[0][0], UnitV):
            e1, e2 = self.exp_of(l.items[0][1], node), self.exp_of(r.items[0][1], node)
            if e1 != e2:
                return BoolV(neg)
            same = self.decide_same_unit(l.items[0][0].uid, r.items[0][0].uid, node)
            return BoolV(same != neg)
        if not a.equals(b):
            q = a / b
            ats = q.atoms()
            if len(ats) == 1 and next(iter(ats))[0] == "nu":
                return BoolV(neg)       # a numeric element of a normal form is never 1
            c = self.I.choose(2, f"term-eq@{getattr(node, 'lineno', '?')}", ["differ", "equal"])
            if c == 1:
                self.st.equate(a, b)
            return BoolV(bool(c) != neg)
        c = self.I.choose(2, f"term-eq@{getattr(node, 'lineno', '?')}", ["differ", "equal"])
        return BoolV(bool(c) != neg)

    # =============================================================== ExchangeRate summary (K15)
    def as_currency(self, v, node, role):
        I = self.I
        if isinstance(v, UnitV):
            if not self.decide_money(self.type_of_unit(v), node):
                ex = ExcV("TypeError", (), node, self.where(node))
                ex.tag = "rate-currency-type"
                raise AbsRaise(ex)
            return v
        if isinstance(v, StrV):
            known = getattr(self.st, "symbol_units", {}).get(v.const if v.const is not None else v.tag)
            if known is not None:
                return known            # the scenario registered a currency under that code
            c = I.choose(2, f"currency-by-symbol({role})", ["ValueError", "found"])
            if c == 0:
                ex = ExcV("ValueError", (), node, self.where(node))
                ex.tag = "rate-unknown-symbol"
                raise AbsRaise(ex)
            u = UnitV(self.st.new_unit(self.special_type("Money")))
            u.from_symbol = v
            return u
        ex = ExcV("TypeError", (), node, self.where(node))
        ex.tag = "rate-currency-type"
        raise AbsRaise(ex)

    def make_rate(self, args, kwargs, node):
        I = self.I
        st = self.st
        init = self.prog.method("ExchangeRate", "__init__")
        params = [p.arg for p in init.node.args.args][1:]
        vals = dict(zip(params, args))
        vals.update(kwargs)
        if len(vals) != 4:
            I.raise_("TypeError", node)
        uc, um_in, tc, ta_in = (vals[p] for p in params)
        st.effects.append(("make_rate", uc, um_in, tc, ta_in, self.where(node)))
        uc = self.as_currency(uc, node, "unit")
        tc = self.as_currency(tc, node, "term")
        if self.decide_same_unit(uc.uid, tc.uid, node):
            ex = ExcV("ValueError", (), node, self.where(node))
            ex.tag = "rate-identical-currencies"
            raise AbsRaise(ex)
        if isinstance(um_in, StrV):
            um_in = self.parse_number(um_in, node, "Decimal")
        if isinstance(ta_in, StrV):
            ta_in = self.parse_number(ta_in, node, "Fraction")
        if isinstance(um_in, OpaqueV):
            um_in = self.fresh_num("um")
        if isinstance(ta_in, OpaqueV):
            ta_in = self.fresh_num("ta")
        if not isinstance(um_in, Num) or not isinstance(ta_in, Num):
            ex = ExcV("TypeError", (), node, self.where(node))
            ex.tag = "rate-number-type"
            raise AbsRaise(ex)
        umc = st.norm(um_in.rf)
        if not (umc.is_const() and umc.const_value() >= 1 and umc.const_value().denominator == 1):
            c = 0 if umc.is_const() else I.choose(2, "rate-multiple-valid", ["ValueError", "ok"])
            if c == 0:
                ex = ExcV("ValueError", (), node, self.where(node))
                ex.tag = "rate-validation"
                raise AbsRaise(ex)
        tac = st.norm(ta_in.rf)
        if not (tac.is_const() and tac.const_value() >= Fraction(1, 1000000)):
            c = 0 if tac.is_const() else I.choose(2, "rate-amount-valid", ["ValueError", "ok"])
            if c == 0:
                ex = ExcV("ValueError", (), node, self.where(node))
                ex.tag = "rate-validation"
                raise AbsRaise(ex)
        # the normalising power of ten is a function of the given amount and multiple
        m = RF.atom(("pw10", st.fresh_keyed("m", (um_in.rf, ta_in.rf))))
        ta = st.rnd(6, ta_in.rf * m / um_in.rf)
        r = RateV(uc, tc, Num(m, "dec"), Num(ta, "dec"), name=st.fresh("rate"))
        r.fresh = True
        return r


class IterV(V):
    def __init__(self, seq):
        self.seq = list(seq)
        self.pos = 0


def _same_class(l, r):
    return type(l) is type(r)


class FullModels(Models, ModelsOps):
    pass
