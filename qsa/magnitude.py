"""Symbolic bounds on the decimal magnitude of positive values (used for the normal-form clauses of C09).

Every positive base quantity q of a path (an input amount, an input multiple) is written
    log10 q = M_q + F_q,   M_q = magnitude(q) an integer,  0 <= F_q < 1,
so that a product of powers of base quantities and of powers of ten with integer exponent expressions has a
log10 that is *linear* in the integers M, the fractional parts F and - for a magnitude taken of a derived
value - case variables d = floor(<linear form in F>).  `min`/`max` of integer expressions are split into cases.
The lower bound of such a linear form under the comparison facts of the path is found by a tiny exact search:
the integer part must reduce, with the facts, to a constant; the fractional part is minimised over the vertices
of the box [0,1]^k cut by the case constraints.  Everything is exact (Fractions); nothing is executed.

What is trusted: magnitude(x), adjusted(), int(floor(log10(x))) all denote floor(log10 x) exactly."""
from __future__ import annotations

import itertools
from fractions import Fraction
from typing import Dict, List, Optional, Tuple

from .poly import RF

BASE_KINDS = ("k", "ta", "um", "parsed", "sym", "a")


class Lin:
    """c0 + sum c_i * x_i over named variables (integers M:.., case variables D:.., fractional parts F:..)."""

    def __init__(self, coef=None, const=Fraction(0)):
        self.coef: Dict[tuple, Fraction] = {k: Fraction(v) for k, v in (coef or {}).items() if v != 0}
        self.const = Fraction(const)

    def __add__(self, o):
        c = dict(self.coef)
        for k, v in o.coef.items():
            c[k] = c.get(k, 0) + v
        return Lin(c, self.const + o.const)

    def scale(self, f):
        f = Fraction(f)
        return Lin({k: v * f for k, v in self.coef.items()}, self.const * f)

    def __sub__(self, o):
        return self + o.scale(-1)

    def part(self, kinds):
        return Lin({k: v for k, v in self.coef.items() if k[0] in kinds})

    def __repr__(self):
        return " + ".join([f"{v}*{k[0]}{k[1:]}" for k, v in sorted(self.coef.items(), key=repr)] + [str(self.const)])


class Unsupported(Exception):
    pass


class Magnitudes:
    def __init__(self, st):
        self.st = st
        self.case_defs: List[Tuple[tuple, Lin]] = []     # (D variable, linear form in F it is the floor of)
        self.minmax: Dict[tuple, tuple] = {}               # atom -> (name, [Lin alternatives])

    # ---------------------------------------------------------------- monomials
    def monomial(self, rf: RF):
        """-> (positive constant, [(atom, int exponent)]) for a quotient of monomials."""
        rf = self.st.norm(rf)
        if not (rf.n.is_monomial() and rf.d.is_monomial()):
            raise Unsupported(f"not a monomial: {rf!r}")
        (mn, cn), = rf.n.t.items()
        (md, cd), = rf.d.t.items()
        c = Fraction(cn) / Fraction(cd)
        if c <= 0:
            raise Unsupported(f"non-positive coefficient in {rf!r}")
        out = []
        for m, sgn in ((mn, 1), (md, -1)):
            for a, e in m:
                if e[1] != 0:
                    raise Unsupported("symbolic exponent")
                out.append((a, sgn * e[0]))
        return c, out

    # ---------------------------------------------------------------- log10 of a value
    def log_of(self, rf: RF) -> Lin:
        c, atoms = self.monomial(rf)
        out = Lin({}, self.log_const(c))
        for a, e in atoms:
            out = out + self.log_atom(a).scale(e)
        return out

    @staticmethod
    def log_const(c: Fraction) -> Fraction:
        k = 0
        x = Fraction(c)
        while x >= 10 and k < 400:
            x /= 10
            k += 1
        while x < 1 and k > -400:
            x *= 10
            k -= 1
        if x != 1:
            raise Unsupported(f"constant {c} is not a power of ten")
        return Fraction(k)

    def log_atom(self, a) -> Lin:
        if a[0] == "pw10":
            e = getattr(self.st, "pow_exps", {}).get(a)
            if e is None:
                raise Unsupported(f"power of ten without a recorded exponent: {a!r}")
            return self.int_form(e)
        if a[0] == "const":
            raise Unsupported(f"constant atom {a!r}")
        if a[0] in BASE_KINDS:
            return Lin({("M", a): 1, ("F", a): 1})
        raise Unsupported(f"value of unknown sign or structure: {a!r}")

    # ---------------------------------------------------------------- integer expressions
    def int_form(self, rf: RF) -> Lin:
        rf = self.st.norm(rf)
        if not rf.d.is_const():
            raise Unsupported(f"integer expression with a denominator: {rf!r}")
        d = rf.d.const_value()
        out = Lin()
        for m, c in rf.n.t.items():
            c = Fraction(c) / d
            if m == ():
                out = out + Lin({}, c)
                continue
            if len(m) != 1 or m[0][1] != (1, 0):
                raise Unsupported(f"non-linear integer expression: {rf!r}")
            out = out + self.int_atom(m[0][0]).scale(c)
        return out

    def arg_of(self, a) -> RF:
        return self.st.norm(self.st.rnd_args[a[2]])

    def int_atom(self, a) -> Lin:
        if a[0] == "fn":
            name = a[1]
            if name in ("magnitude",):
                return self.magnitude_of(self.arg_of(a))
            if name in ("int", "math.floor"):
                inner = self.arg_of(a)
                at = _single(inner)
                if at is not None and at[0] == "fn" and at[1] in ("math.floor", "int", "math.log10"):
                    if at[1] == "math.log10":
                        return self.magnitude_of(self.arg_of(at))
                    return self.int_atom(at)
                raise Unsupported(f"{name} of {inner!r}")
            if name in ("min", "max"):
                key = self.arg_of(a)
                alts = self.slots(key)
                self.minmax[a] = (name, alts)
                return Lin({("X", a): 1})
        if a[0] in ("k", "sym") :
            return Lin({("M", ("int",) + a): 1})        # an unknown integer
        raise Unsupported(f"integer atom {a!r}")

    def slots(self, key: RF) -> List[Lin]:
        """Arguments of min/max, encoded as sum arg_i * slot(i)."""
        parts: Dict[int, RF] = {}
        key = self.st.norm(key)
        d = key.d.const_value()
        from .poly import Poly
        for m, c in key.n.t.items():
            sl = [x for x in m if x[0][0] == "slot"]
            if len(sl) != 1:
                # slot(0) * 0 vanishes: a missing slot is the constant 0
                raise Unsupported(f"min/max key {key!r}")
            i = sl[0][0][1]
            rest = tuple(x for x in m if x[0][0] != "slot")
            parts[i] = parts.get(i, RF.const(0)) + RF(Poly({rest: Fraction(c) / d}))
        n = max(parts) + 1 if parts else 0
        return [self.int_form(parts.get(i, RF.const(0))) for i in range(max(n, 2))]

    def magnitude_of(self, rf: RF) -> Lin:
        """floor(log10 rf) = integer part + floor(fractional part)."""
        lg = self.log_of(rf)
        frac = lg.part(("F",))
        ints = lg - frac
        if not frac.coef:
            return ints
        if len(frac.coef) == 1 and list(frac.coef.values())[0] == 1:
            return ints                                 # floor(M + F) = M
        d = ("D", len(self.case_defs))
        self.case_defs.append((d, frac))
        return ints + Lin({d: 1})

    # ---------------------------------------------------------------- facts
    def int_facts(self) -> List[Tuple[Lin, str]]:
        """Facts of the path as `form >= 0` / `form == 0` over the integer variables."""
        out = []
        for diff, op, res in getattr(self.st, "cmp_raw", []):
            op2 = op if res else {"==": "!=", "!=": "==", "<": ">=", "<=": ">", ">": "<=", ">=": "<"}[op]
            # value facts about a base quantity: q >= 10^k  =>  M_q >= k ;  q < 10^k  =>  M_q <= k - 1
            try:
                vf = self.value_fact(self.st.norm(diff), op2)
            except Unsupported:
                vf = None
            if vf is not None:
                out.append(vf)
                continue
            try:
                f = self.int_form(diff)
            except Unsupported:
                continue
            if f.part(("F",)).coef:
                continue
            if op2 == ">=":
                out.append((f, ">="))
            elif op2 == ">":
                out.append((f + Lin({}, -1), ">="))         # integers: f > 0  <=>  f - 1 >= 0
            elif op2 == "<=":
                out.append((f.scale(-1), ">="))
            elif op2 == "<":
                out.append((f.scale(-1) + Lin({}, -1), ">="))
            elif op2 == "==":
                out.append((f, "=="))
        return out

    def value_fact(self, diff: RF, op):
        """q - c (op) 0 for a base quantity q and a positive power of ten c."""
        if not diff.d.is_const():
            return None
        terms = list(diff.n.t.items())
        if len(terms) != 2:
            return None
        q = cst = None
        for m, c in terms:
            if m == ():
                cst = Fraction(c)
            elif len(m) == 1 and m[0][1] == (1, 0) and m[0][0][0] in BASE_KINDS:
                q, qc = m[0][0], Fraction(c)
        if q is None or cst is None or qc == 0:
            return None
        thr = -cst / qc                    # q (op') thr
        if thr <= 0:
            return None
        if qc < 0:
            op = {">=": "<=", ">": "<", "<=": ">=", "<": ">", "==": "==", "!=": "!="}[op]
        try:
            k = self.log_const(thr)
        except Unsupported:
            return None
        M = Lin({("M", q): 1})
        if op in (">=", ">"):
            return (M + Lin({}, -k), ">=")
        if op == "<":
            return (M.scale(-1) + Lin({}, k - 1), ">=")
        return None

    # ---------------------------------------------------------------- the bound
    def lower_bound(self, rf: RF) -> Tuple[Optional[Fraction], str]:
        """Greatest lower bound of log10(rf) that follows from the facts of the path, or (None, reason)."""
        try:
            L = self.log_of(rf)
            facts = self.int_facts()
        except Unsupported as e:
            return None, str(e)
        best = None
        why = ""
        # case split over min/max atoms
        xs = [k for k in L.coef if k[0] == "X"]
        pending = list(xs)
        alts_list = []
        for x in xs:
            name, alts = self.minmax[x[1]]
            alts_list.append([(x, name, i, alts) for i in range(len(alts))])
        for combo in itertools.product(*alts_list) if alts_list else [()]:
            Lc = L
            fcs = list(facts)
            for x, name, i, alts in combo:
                Lc = Lc + alts[i].scale(Lc.coef.get(x, 0)) - Lin({x: Lc.coef.get(x, 0)})
                for j, other in enumerate(alts):
                    if j != i:
                        # min: chosen <= other ; max: chosen >= other
                        fcs.append(((other - alts[i]) if name == "min" else (alts[i] - other), ">="))
            lo, w = self._bound_case(Lc, fcs)
            if lo is None:
                continue                    # infeasible case
            if lo == "unbounded":
                return None, w
            if best is None or lo < best:
                best, why = lo, w
        if best is None:
            return None, "no feasible case"
        return best, why

    def _bound_case(self, L: Lin, facts):
        """Minimise L over the case variables D (enumerated), the fractional parts (box vertices) and the
        integers (which must be pinned by the facts)."""
        dvars = [d for d, _ in self.case_defs]
        fvars = sorted({k for k in L.coef if k[0] == "F"} | {k for _, fr in self.case_defs for k in fr.coef}, key=repr)
        ranges = []
        for d, fr in self.case_defs:
            lo = sum(min(0, v) for v in fr.coef.values())
            hi = sum(max(0, v) for v in fr.coef.values())
            import math
            ranges.append(list(range(math.floor(lo), math.ceil(hi) + 1)))
        best = None
        why = ""
        for dvals in itertools.product(*ranges) if ranges else [()]:
            sub = dict(zip(dvars, dvals))
            Ld = _subst(L, sub)
            fd = [(_subst(f, sub), op) for f, op in facts]
            # integer part: every M coefficient must vanish or be bounded by one fact
            ipart = Ld.part(("M",))
            ibound = self._int_lower(ipart, fd)
            if ibound is None:
                return "unbounded", f"the integer part {ipart!r} of log10 is not bounded below by the path's facts"
            if ibound == "infeasible":
                continue
            # fractional part: LP over the box with the case constraints d <= fr <= d + 1
            cons = []
            for (d, fr), dv in zip(self.case_defs, dvals):
                cons.append((fr, Fraction(dv), Fraction(dv) + 1))
            fmin = _lp_min(Ld.part(("F",)), fvars, cons)
            if fmin is None:
                continue                    # this case of the floor is infeasible
            total = ibound + fmin + Ld.const
            if best is None or total < best:
                best, why = total, f"case {sub}: integers >= {ibound}, fractional parts >= {fmin}"
        return best, why

    def _int_lower(self, ipart: Lin, facts):
        if not ipart.coef:
            # still check feasibility of constant facts
            for f, op in facts:
                if not f.coef and ((op == ">=" and f.const < 0) or (op == "==" and f.const != 0)):
                    return "infeasible"
            return Fraction(0)
        for f, op in facts:
            if not f.coef and ((op == ">=" and f.const < 0) or (op == "==" and f.const != 0)):
                return "infeasible"
        # ipart = lam * g + c for one fact g >= 0 (lam > 0) or g == 0
        cands = []
        for f, op in facts:
            fm = f.part(("M",))
            if not fm.coef or set(fm.coef) != set(ipart.coef) or (f - fm).coef:
                continue
            k0 = next(iter(fm.coef))
            lam = ipart.coef[k0] / fm.coef[k0]
            if all(ipart.coef[k] == lam * fm.coef[k] for k in fm.coef):
                if op == "==" or lam > 0:
                    # g >= 0 with g = fm + f.const  =>  fm >= -f.const  =>  ipart = lam*fm >= -lam*f.const
                    cands.append(-lam * f.const)
        # sums of single-variable facts
        if not cands:
            total = Fraction(0)
            ok = True
            for k, v in ipart.coef.items():
                b = None
                for f, op in facts:
                    fm = f.part(("M",))
                    if set(fm.coef) == {k} and not (f - fm).coef:
                        lam = v / fm.coef[k]
                        if op == "==" or lam > 0:
                            cand = -lam * f.const
                            b = cand if b is None else max(b, cand)
                if b is None:
                    ok = False
                    break
                total += b
            if ok:
                cands.append(total)
        return max(cands) if cands else None


def _single(rf: RF):
    if rf.d.is_const() and rf.n.is_monomial():
        (m, c), = rf.n.t.items()
        if c == rf.d.const_value() and len(m) == 1 and m[0][1] == (1, 0):
            return m[0][0]
    return None


def _subst(L: Lin, sub) -> Lin:
    c = {}
    const = L.const
    for k, v in L.coef.items():
        if k in sub:
            const += v * sub[k]
        else:
            c[k] = v
    return Lin(c, const)


def _lp_min(obj: Lin, fvars, cons) -> Optional[Fraction]:
    """min obj over 0 <= F <= 1 with lo <= a.F <= hi, by vertex enumeration (at most a handful of variables)."""
    n = len(fvars)
    if n == 0:
        for a, lo, hi in cons:
            if not (lo <= a.const <= hi):
                return None
        return Fraction(0)
    if n > 6:
        raise Unsupported("too many fractional parts")
    # hyperplanes: F_i = 0, F_i = 1, a.F = lo, a.F = hi
    planes = []
    for i in range(n):
        row = [Fraction(0)] * n
        row[i] = Fraction(1)
        planes.append((row, Fraction(0)))
        planes.append((row, Fraction(1)))
    for a, lo, hi in cons:
        row = [a.coef.get(v, Fraction(0)) for v in fvars]
        if any(row):
            planes.append((row, lo - a.const))
            planes.append((row, hi - a.const))
    cvec = [obj.coef.get(v, Fraction(0)) for v in fvars]

    def feasible(x):
        if any(xi < 0 or xi > 1 for xi in x):
            return False
        for a, lo, hi in cons:
            val = a.const + sum(a.coef.get(v, 0) * xi for v, xi in zip(fvars, x))
            if val < lo or val > hi:
                return False
        return True
    best = None
    for combo in itertools.combinations(range(len(planes)), n):
        A = [planes[i][0][:] for i in combo]
        b = [planes[i][1] for i in combo]
        x = _solve(A, b)
        if x is None or not feasible(x):
            continue
        val = sum(c * xi for c, xi in zip(cvec, x))
        if best is None or val < best:
            best = val
    return best


def _solve(A, b):
    n = len(A)
    M = [row[:] + [bi] for row, bi in zip(A, b)]
    for c in range(n):
        p = None
        for r in range(c, n):
            if M[r][c] != 0:
                p = r
                break
        if p is None:
            return None
        M[c], M[p] = M[p], M[c]
        pv = M[c][c]
        M[c] = [x / pv for x in M[c]]
        for r in range(n):
            if r != c and M[r][c] != 0:
                f = M[r][c]
                M[r] = [x - f * y for x, y in zip(M[r], M[c])]
    return [M[i][n] for i in range(n)]
