"""Private names are not behaviour.

The models of Engine A speak about the private state of the library's value classes in a fixed vocabulary
(`_amount`, `_unit`, `_equiv`, `_ref_unit`, ...).  Which private name of the *analysed tree* plays which of these
roles is read off the tree itself - from the public accessors, which are API and keep their names:

    Quantity.amount / .unit, Unit.symbol / .name / .definition / .qty_cls (+ the remaining slot: the scale),
    Currency.smallest_fraction, ExchangeRate.unit_currency / .term_currency / .rate (numerator, denominator),
    QuantityMeta.ref_unit / .quantum / .norm_sort_key() / .units(), the class-dict key read by QuantityMeta.__new__,
    ClassWithDefinitionMeta.definition, Term.items / .normalized() / .__hash__, the registries by their initialiser.

If the tree uses other private names than the vocabulary, the loader analyses the consistently renamed program
(an alpha-renaming, which preserves behaviour); reports then show the canonical names."""
from __future__ import annotations

import ast
import re
from typing import Dict, List, Optional, Set


def _getter(prog, cname, name):
    ci = prog.classes.get(cname)
    while ci is not None:
        fi = ci.methods.get(name)
        if fi is not None:
            return fi
        nxt = None
        for b in ci.base_names:
            b = b.split(".")[-1].split("[")[0]
            if b in prog.classes:
                nxt = prog.classes[b]
                break
        ci = nxt
    return None


def _self_attrs(fi) -> List[str]:
    """Private (non-dunder) attributes of the receiver read in a method, in source order."""
    node = fi.node
    a = node.args
    params = [p.arg for p in a.posonlyargs + a.args]
    me = params[0] if params else None
    out = []
    for n in ast.walk(node):
        if isinstance(n, ast.Attribute) and isinstance(n.value, ast.Name) and n.value.id == me and \
                n.attr.startswith("_") and not n.attr.startswith("__"):
            out.append((n.lineno, n.col_offset, n.attr))
    seen, res = set(), []
    for _l, _c, nm in sorted(out):
        if nm not in seen:
            seen.add(nm)
            res.append(nm)
    return res


def _slots(prog, cname) -> List[str]:
    ci = prog.classes.get(cname)
    if ci is None:
        return []
    e = ci.attrs.get("__slots__")
    if isinstance(e, (ast.List, ast.Tuple)):
        return [x.value for x in e.elts if isinstance(x, ast.Constant) and isinstance(x.value, str)]
    return []


def derive(prog) -> Dict[str, str]:
    """-> {actual private name: canonical name} for the names that differ (empty on the pinned vocabulary)."""
    pairs: Dict[str, str] = {}

    def assign(actual: Optional[str], canonical: str):
        if actual is None or actual == canonical:
            return
        if actual in pairs and pairs[actual] != canonical:
            from .loader import AnalysisError
            raise AnalysisError(f"private name {actual} plays two roles ({pairs[actual]}, {canonical})")
        pairs[actual] = canonical

    def single(cname, accessor, canonical, known=()):
        fi = _getter(prog, cname, accessor)
        if fi is None:
            return None
        cands = [x for x in _self_attrs(fi) if x not in known and prog.lookup(prog.classes[cname], x) is None] \
            if cname in prog.classes else []
        # an attribute the accessor itself fills (a cache of its answer) is not the state it answers from
        me = fi.node.args.args[0].arg if fi.node.args.args else None
        stored = {n.attr for n in ast.walk(fi.node) if isinstance(n, ast.Attribute) and isinstance(n.ctx, ast.Store)
                  and isinstance(n.value, ast.Name) and n.value.id == me}
        if any(x not in stored for x in cands):
            cands = [x for x in cands if x not in stored]
        # an accessor that goes through another accessor (self.qty_cls) reads no private attribute itself
        if len(cands) >= 1:
            assign(cands[0], canonical)
            return cands[0]
        return None

    # ---- Quantity
    single("Quantity", "amount", "_amount")
    single("Quantity", "unit", "_unit")
    # ---- Unit
    sym = single("Unit", "symbol", "_symbol")
    nm = single("Unit", "name", "_name", known=(sym,) if sym else ("_symbol",))
    df = single("Unit", "definition", "_definition")
    qc = single("Unit", "qty_cls", "_qty_cls")
    slots = _slots(prog, "Unit")
    if len(slots) == 5:
        known = {sym or "_symbol", nm or "_name", df or "_definition", qc or "_qty_cls"}
        rest = [s for s in slots if s not in known]
        if len(rest) == 1:
            assign(rest[0], "_equiv")
    # ---- Currency
    single("Currency", "smallest_fraction", "_smallest_fraction")
    # ---- ExchangeRate
    uc = single("ExchangeRate", "unit_currency", "_unit_currency")
    tc = single("ExchangeRate", "term_currency", "_term_currency")
    fi = _getter(prog, "ExchangeRate", "rate")
    if fi is not None:
        me = fi.node.args.args[0].arg if fi.node.args.args else None
        for n in ast.walk(fi.node):
            if isinstance(n, ast.BinOp) and isinstance(n.op, ast.Div):
                l, r = n.left, n.right
                if all(isinstance(x, ast.Attribute) and isinstance(x.value, ast.Name) and x.value.id == me for x in (l, r)):
                    assign(l.attr, "_term_amount")
                    assign(r.attr, "_unit_multiple")
                    break
    # ---- quantity classes (metaclass attributes)
    single("QuantityMeta", "ref_unit", "_ref_unit")
    single("QuantityMeta", "quantum", "_quantum")
    single("QuantityMeta", "norm_sort_key", "_reg_id")
    single("QuantityMeta", "units", "_unit_map")
    single("ClassWithDefinitionMeta", "definition", "_definition")
    new = _getter(prog, "QuantityMeta", "__new__")
    if new is not None:
        keys = []
        for n in ast.walk(new.node):
            if isinstance(n, ast.Subscript) and isinstance(n.slice, ast.Constant) and isinstance(n.slice.value, str) \
                    and n.slice.value.startswith("_") and not n.slice.value.startswith("__"):
                if n.slice.value not in keys:
                    keys.append(n.slice.value)
        if len(keys) == 1:
            assign(keys[0], "_unit_cls")
    # ---- registries, by their initialiser
    def is_registry_call(module, e) -> bool:
        if not isinstance(e, ast.Call):
            return False
        f = e.func
        base = f.value if isinstance(f, ast.Subscript) else f
        if not isinstance(base, ast.Name):
            return False
        tgt = prog.resolve_global(module, base.id)
        if tgt and tgt[0] == "expr" and isinstance(tgt[2], ast.Subscript) and isinstance(tgt[2].value, ast.Name):
            tgt = prog.resolve_global(tgt[1], tgt[2].value.id)
        return bool(tgt and tgt[0] == "class" and tgt[1].name == "DefinedItemRegistry")
    qm = prog.classes.get("QuantityMeta")
    if qm is not None:
        regs = [k for k, e in qm.attrs.items() if is_registry_call(qm.module, e)]
        if len(regs) == 1:
            assign(regs[0], "_registry")
        # the term -> unit directory: the one module-level registry object of the package, wherever it lives
        regs = [k for m in prog.modules.values() for k, e in m.globals.items() if is_registry_call(m, e)]
        if len(regs) == 1:
            assign(regs[0], "_TERM_UNIT_MAP")
    # the symbol -> unit directory: the module-level mapping unit creation enters the new unit into
    try:
        from .anchors import symbol_directories
        dirs = sorted(symbol_directories(prog))
        if len(dirs) == 1:
            assign(dirs[0], "_SYMBOL_UNIT_MAP")
    except Exception:       # noqa: BLE001 - no unit creator found: nothing to derive
        pass
    if False:
        pass
    # ---- Term
    it = single("Term", "items", "_items")
    tslots = _slots(prog, "Term")
    no = single("Term", "normalized", "_normalized", known=(it or "_items",))
    single("Term", "__hash__", "_hash", known=(it or "_items", no or "_normalized"))
    # ---- the comparison helper of Quantity (a private method all ordering dunders call), if there is one
    q = prog.classes.get("Quantity")
    if q is not None:
        common: Optional[Set[str]] = None
        for d in ("__lt__", "__le__", "__gt__", "__ge__"):
            f_ = q.methods.get(d)
            if f_ is None or not hasattr(f_.node, "body"):
                common = set()
                break
            me = f_.node.args.args[0].arg if f_.node.args.args else None
            called = {n.func.attr for n in ast.walk(f_.node)
                      if isinstance(n, ast.Call) and isinstance(n.func, ast.Attribute) and isinstance(n.func.value, ast.Name)
                      and n.func.value.id == me and n.func.attr.startswith("_") and not n.func.attr.startswith("__")
                      and n.func.attr in q.methods}
            common = called if common is None else (common & called)
        if common and len(common) == 1:
            assign(next(iter(common)), "_compare")
    # a canonical name that the tree uses for something else would collide with the renaming
    return {a: c for a, c in pairs.items() if a != c}


def substitute(src: str, mapping: Dict[str, str]) -> str:
    if not mapping:
        return src
    # two-step (through placeholders) so that swapped names cannot chain; module paths of import statements are
    # file names, not attribute names, and stay as they are
    ph = {a: f"\x00{i}\x00" for i, a in enumerate(mapping)}
    pats = [(re.compile(r"(?<![A-Za-z0-9_])" + re.escape(a) + r"(?![A-Za-z0-9_])"), ph[a])
            for a in sorted(mapping, key=len, reverse=True)]

    def sub(text):
        for pat, p_ in pats:
            text = pat.sub(p_, text)
        return text
    out = []
    for line in src.split("\n"):
        st = line.lstrip()
        if st.startswith("from ") and " import " in line:
            head, tail = line.split(" import ", 1)
            out.append(head + " import " + sub(tail))
        elif st.startswith("import "):
            out.append(line)
        else:
            out.append(sub(line))
    src = "\n".join(out)
    for a, p_ in ph.items():
        src = src.replace(p_, mapping[a])
    return src
