"""Rule-sensitivity audit catalogue: source edits applied to scratch copies of /repo.

breaking: the listed properties' checks must report a VIOLATION (exit 1);
benign:   behaviour-preserving refactorings - every listed check must stay silent (exit 0, not exit 2).
An edit whose `old` text is not found (because /repo itself was changed) is skipped, not failed.
Files are relative to the repository root.  Only the audit tool matches text; the checks never do."""

Q = "src/quantity/__init__.py"
T = "src/quantity/term.py"
M = "src/quantity/money/__init__.py"
C = "src/quantity/converter.py"
P = "src/quantity/predefined.py"
R = "src/quantity/registry.py"
S = "src/quantity/si_prefixes.py"
CU = "src/quantity/money/currencies.py"

ALL = [f"C{i:02d}" for i in range(1, 21)]

BREAKING = [
    # --- conversion
    dict(id="b001", file=Q, old="                return self._equiv / other._equiv\n        raise TypeError(f\"Can't compare a unit to",
         new="                return other._equiv / self._equiv\n        raise TypeError(f\"Can't compare a unit to", props=["C01", "C04"]),
    dict(id="b002", file=Q, old="                return factor * self.amount", new="                return self.amount / factor", props=["C01"]),
    dict(id="b003", file=Q, old="            unit._equiv = ONE * (define_as.normalized().num_elem or ONE)",
         new="            unit._equiv = ONE * (define_as.num_elem or ONE)", props=["C01"]),
    dict(id="b006", file=Q, old="            unit._equiv = ONE * (define_as.normalized().num_elem or ONE)",
         new="            unit._equiv = define_as.normalized().num_elem or ONE", props=["C01"]),
    dict(id="b004", file=Q, old="        return equiv_amount * to_unit", new="        return equiv_amount * self.unit", props=["C01"]),
    dict(id="b005", file=Q, old="                raise IncompatibleUnitsError(msg, self.__class__,\n                                             unit.qty_cls) from None",
         new="                raise UnitConversionError(msg, self.__class__,\n                                          unit.qty_cls) from None", props=["C01"]),
    # --- products
    dict(id="b010", file=Q, old="            return (self.amount * other.amount * amnt) * unit", new="            return (self.amount * other.amount) * unit", props=["C02"]),
    dict(id="b011", file=Q, old="                return (self.amount / other.amount * amnt) * unit", new="                return (self.amount * other.amount * amnt) * unit", props=["C02"]),
    dict(id="b012", file=Q, old="            if unit is None:    # dimensions cancel\n                return self.amount * other.amount * amnt\n", new="", props=["C02"]),
    dict(id="b013", file=Q, old="            return self.__class__(self.amount * Decimal(other), self.unit)", new="            return self.__class__(self.amount * other, self.unit)", props=["C02"]),
    dict(id="b014", file=Q, old="            res_def = UnitDefT(((self, 1), (other, -1)))", new="            res_def = UnitDefT(((self, 1), (other, 1)))", props=["C02"]),
    dict(id="b015", file=Q, old="            except KeyError:\n                raise UndefinedResultError(operator.mul,", new="            except KeyError:\n                raise QuantityError(operator.mul,", props=["C02"]),
    dict(id="b016", file=Q, old="            return (amnt / other.amount) * unit\n        return NotImplemented", new="            return (other.amount * amnt) * unit\n        return NotImplemented", props=["C02"]),
    # --- add / compare
    dict(id="b020", file=Q, old="            return self.__class__(self.amount - equiv, self.unit)", new="            return self.__class__(equiv - self.amount, self.unit)", props=["C03"]),
    dict(id="b021", file=Q, old="            return self.__class__(self.amount + equiv, self.unit)", new="            return self.__class__(self.amount + equiv, other.unit)", props=["C03"]),
    dict(id="b022", file=Q, old="        elif isinstance(other, Quantity):\n            raise IncompatibleUnitsError(\"Can't add a '%s' and a '%s'.\",\n                                         self.__class__, other.__class__)\n", new="", props=["C03"]),
    dict(id="b023", file=Q, old="        return self._compare(other, operator.lt)\n\n    def __le__(self, other: Any) -> bool:\n        \"\"\"self <= other\"\"\"\n        return self._compare(other, operator.le)\n\n    def __gt__(self, other: Any) -> bool:\n        \"\"\"self > other\"\"\"\n        return self._compare(other, operator.gt)\n\n    def __ge__(self, other: Any) -> bool:\n        \"\"\"self >= other\"\"\"\n        return self._compare(other, operator.ge)\n\n    def __hash__",
         new="        return self._compare(other, operator.le)\n\n    def __le__(self, other: Any) -> bool:\n        \"\"\"self <= other\"\"\"\n        return self._compare(other, operator.le)\n\n    def __gt__(self, other: Any) -> bool:\n        \"\"\"self > other\"\"\"\n        return self._compare(other, operator.gt)\n\n    def __ge__(self, other: Any) -> bool:\n        \"\"\"self >= other\"\"\"\n        return self._compare(other, operator.ge)\n\n    def __hash__", props=["C04"]),
    dict(id="b024", file=Q, old="            return op(self.amount, equiv)", new="            return op(equiv, self.amount)", props=["C04"]),
    dict(id="b025", file="src/quantity/utils.py", old="    return builtin_sum(it, start)", new="    return builtin_sum(items, start)", props=["C03"]),
    # --- quantum
    dict(id="b030", file=Q, old="            amnt = Decimal(amnt / quantum, 0) * quantum", new="            amnt = int(amnt / quantum) * quantum", props=["C05", "C18"]),
    dict(id="b031", file=Q, old="        if quantum is not None:\n            amnt = Decimal(amnt / quantum, 0) * quantum\n", new="", props=["C05"]),
    dict(id="b032", file=Q, old="        return cls.quantum / self._equiv", new="        return cls.quantum * self._equiv", props=["C05"]),
    dict(id="b033", file=Q, old="        return (self.amount ** exp * amnt) * unit", new="        return self.amount ** exp * (amnt * unit)", props=["C05"]),
    dict(id="b034", file=M, old="        return self._smallest_fraction\n\n    def __repr__", new="        return self._smallest_fraction * 10\n\n    def __repr__", props=["C05", "C08"]),
    # --- allocate
    dict(id="b040", file=Q, old="                    rem_amount -= quantum\n", new="", props=["C06"]),
    dict(id="b041", file=Q, old="        remainder = self - sum(portions)", new="        remainder = sum(portions) - self", props=["C06"]),
    dict(id="b043", file=Q, old="                                reverse=(rem_amount < 0))", new="                                reverse=(rem_amount > 0))", props=["C06"]),
    dict(id="b044", file=Q, old="                                    (portion.amount - self.amount * fraction,", new="                                    (portion.amount / self.amount - fraction,", props=["C06"]),
    dict(id="b042", file=Q, old="        fractions = [ratio / total for ratio in ratios]", new="        fractions = [ratio / n_portions for ratio in ratios]", props=["C06"]),
    # --- term
    dict(id="b050", file=T, old="            if isinstance(elem, Rational):\n                # a numerical element is only normalized if it's not raised\n                # to a power\n                if exp == 1:\n                    self._normalized = self", new="            if isinstance(elem, Rational):\n                self._normalized = self", props=["C07"]),
    dict(id="b051", file=T, old="        return Fraction(base) ** exp\n", new="        return base ** exp\n", props=["C07"]),
    dict(id="b052", file=T, old="    return ((elem, -exp) for (elem, exp) in items)", new="    return ((elem, exp) for (elem, exp) in items)", props=["C07"]),
    dict(id="b053", file=T, old="        return self.__class__(((ielem, exp * iexp) for (ielem, iexp) in self),", new="        return self.__class__(((ielem, exp + iexp) for (ielem, iexp) in self),", props=["C07"]),
    dict(id="b054", file=T, old="                                accum_items[idx] = (elem_t1, exp1 + exp2)\n                                done = True\n                                break\n                    if not done:", new="                                accum_items[idx] = (elem_t1, exp1 - exp2)\n                                done = True\n                                break\n                    if not done:", props=["C07"]),
    dict(id="b055", file=T, old="                self._hash = hash_val = hash(self.normalized())", new="                self._hash = hash_val = hash(self._items)", props=["C07", "C19"]),
    dict(id="b056", file=T, old="                    accum_items.sort(key=lambda item: str(item[0]))\n", new="                    pass\n", props=["C07"]),
    # --- money
    dict(id="b060", file=M, old="                smallest_fraction = Decimal(10) ** -minor_unit", new="                smallest_fraction = Decimal(10) ** -(minor_unit + 1)", props=["C08"]),
    dict(id="b061", file=M, old="            curr = cls.new_unit(iso_code, name, minor_unit)", new="            curr = cls.new_unit(iso_code, name, iso_num_code)", props=["C08"]),
    dict(id="b062", file=CU, old="        country, name, iso_code, iso_num_code, minor_units = descr", new="        country, name, iso_code, minor_units, iso_num_code = descr", props=["C08"]),
    dict(id="b063", file=Q, old="            if self.qty_cls is other.qty_cls:\n                if qty_cls.ref_unit is None:\n                    return None", new="            if self.qty_cls is other.qty_cls:\n                if qty_cls.ref_unit is None:\n                    return ONE", props=["C08", "C01"]),
    # --- exchange rates
    dict(id="b070", file=M, old="        return self._unit_multiple / self._term_amount", new="        return self._term_amount / self._unit_multiple", props=["C09"]),
    dict(id="b071", file=M, old="        return ExchangeRate(self._term_currency, ONE, self._unit_currency,\n                            self.inverse_rate)", new="        return ExchangeRate(self._unit_currency, ONE, self._term_currency,\n                            self.inverse_rate)", props=["C09"]),
    dict(id="b072", file=M, old="        if unit_multiple < 1:\n            raise ValueError(\"Unit multiple must be >= 1.\")\n", new="", props=["C09"]),
    dict(id="b073", file=M, old="        self._term_amount = Decimal(term_amount, 6)", new="        self._term_amount = Decimal(term_amount, 5)", props=["C09"]),
    dict(id="b074", file=M, old="            if self.unit_currency is other.unit_currency:\n                return ExchangeRate(other.term_currency, ONE,\n                                    self.term_currency,\n                                    self.rate / other.rate)", new="            if self.unit_currency is other.unit_currency:\n                return ExchangeRate(other.term_currency, ONE,\n                                    self.term_currency,\n                                    other.rate / self.rate)", props=["C09"]),
    dict(id="b075", file=M, old="                return other.__class__(other.amount * self.rate,\n                                       self.term_currency)", new="                return other.__class__(other.amount * self.rate,\n                                       self.unit_currency)", props=["C10"]),
    dict(id="b076", file=M, old="            if other.unit is self.term_currency:\n                return other.__class__(other.amount * self.inverse_rate,", new="            if other.unit is self.unit_currency:\n                return other.__class__(other.amount * self.inverse_rate,", props=["C10"]),
    dict(id="b077", file=M, old="            amnt *= self.inverse_rate * other.amount", new="            amnt *= self.rate * other.amount", props=["C10"]),
    # --- converter
    dict(id="b080", file=M, old="        tuple: lambda d: (d.year, d.month),", new="        tuple: lambda d: (d.month, d.year),", props=["C11"]),
    dict(id="b081", file=M, old="                                    term_rate.rate / unit_rate.rate)", new="                                    unit_rate.rate / term_rate.rate)", props=["C11"]),
    dict(id="b082", file=M, old="                return rate.inverted()", new="                return rate", props=["C11"]),
    dict(id="b083", file=M, old="        self._type_of_validity = type(validity)\n        self._rate_dict.update(((validity, rate.term_currency), rate)\n                               for rate in rates)", new="        self._type_of_validity = type(validity)\n        self._rate_dict.update(((validity, rate.unit_currency), rate)\n                               for rate in rates)", props=["C11"]),
    dict(id="b084", file=M, old="            effective_date = self._get_dflt_effective_date()", new="            effective_date = date.today()", props=["C11"]),
    dict(id="b085", file=M, old="            return rate.rate * money_amnt.amount  # type: ignore", new="            return rate.inverse_rate * money_amnt.amount  # type: ignore", props=["C11"]),
    # --- registration
    dict(id="b090", file=M, old="            cls._converters.pop()", new="            cls._converters.pop(0)", props=["C12"]),
    dict(id="b091", file=M, old="        Money.remove_converter(self)\n        return None", new="        Money.remove_converter(self)\n        return True", props=["C12"]),
    dict(id="b092", file=Q, old="        return reversed(cls._converters)", new="        return iter(cls._converters)", props=["C12"]),
    dict(id="b093", file=M, old="        if isinstance(conv, MoneyConverter):\n            cls._converters.append(conv)", new="        if isinstance(conv, MoneyConverter):\n            cls._converters.insert(0, conv)", props=["C12"]),
    # --- rounding
    dict(id="b100", file=Q, old="            if ar > ay or (ar == ay and quot >= 0):", new="            if ar > ay or (ar == ay and quot > 0):", props=["C13"]),
    dict(id="b101", file=Q, old="            if ar > ay or (ar == ay and quot % 2 != 0):", new="            if ar > ay or (ar == ay and quot % 2 == 0):", props=["C13"]),
    dict(id="b102", file=Q, old="                    quot < 0 and (quot + 1) % 5 != 0):", new="                    quot < 0 and quot % 5 != 0):", props=["C13"]),
    dict(id="b103", file=Q, old="        num_quant = quant.equiv_amount(self.unit)", new="        num_quant = quant.amount", props=["C13"]),
    dict(id="b104", file=Q, old="            res_amnt = amnt.quantize(num_quant, rounding=rounding)", new="            res_amnt = amnt.quantize(num_quant)", props=["C13"]),
    # --- table converter
    dict(id="b110", file=C, old="                return cast('Rational', (qty.amount - offset) / factor)", new="                return cast('Rational', qty.amount / factor - offset)", props=["C14"]),
    dict(id="b111", file=C, old="                factor, offset = self._unit_map[(to_unit, qty.unit)]", new="                factor, offset = self._unit_map[(qty.unit, to_unit)]", props=["C14"]),
    dict(id="b112", file=P, old="    (KELVIN, CELSIUS, Decimal(1), Decimal('-273.15')),", new="    (KELVIN, CELSIUS, Decimal(1), Decimal('-273.16')),", props=["C14", "C20"]),
    # --- directories
    dict(id="b120", file=Q, old="        cls._unit_map[symbol] = unit\n", new="        Quantity._unit_map[symbol] = unit\n", props=["C15"]),
    dict(id="b121", file=Q, old="            unit_def = UnitDefT([(define_as.amount, 1), (define_as.unit, 1)])", new="            unit_def = UnitDefT([(define_as.unit, 1)])", props=["C15"]),
    dict(id="b122", file=Q, old="            if qty_cls is not unit.qty_cls:\n                raise ValueError(\n                    \"Given base units don't match base quantities.\")\n", new="", props=["C15"]),
    dict(id="b123", file=Q, old="        cls._unit_map = {}\n        if ref_unit_symbol:", new="        if ref_unit_symbol:", props=["C15"]),
    dict(id="b124", file=Q, old="        try:\n            _SYMBOL_UNIT_MAP[symbol]\n        except KeyError:\n            _SYMBOL_UNIT_MAP[symbol] = unit\n        else:\n            raise ValueError(\n                f\"Unit with symbol '{symbol}' already registered.\")", new="        _SYMBOL_UNIT_MAP[symbol] = unit", props=["C15", "C17"]),
    dict(id="b125", file=Q, old="        if define_as is not None:\n            # reject a second class for an already registered definition", new="        if False:\n            # reject a second class for an already registered definition", props=["C16"]),
    dict(id="b126", file=M, old="        assert isinstance(smallest_fraction, Decimal)\n        curr = super().new_unit(symbol, name)", new="        curr = super().new_unit(symbol, name)\n        assert isinstance(smallest_fraction, Decimal)\n        if smallest_fraction > 1:\n            raise ValueError('too big')", props=["C16"]),
    # --- cache
    dict(id="b130", file=Q, old="            _op_cache[(operator.truediv, self, other)] = (amnt, unit)", new="            _op_cache[(operator.truediv, other, self)] = (amnt, unit)", props=["C17"]),
    dict(id="b131", file=Q, old="                return _op_cache[(operator.truediv, self, other)]", new="                return _op_cache[(operator.mul, self, other)]", props=["C17"]),
    # --- text
    dict(id="b140", file=Q, old="        return f\"{self.amount} {self.unit}\"", new="        return f\"{self.amount}{self.unit}\"", props=["C18"]),
    dict(id="b141", file=Q, old="            parts = q_repr.lstrip().split(' ', 1)", new="            parts = q_repr.lstrip().rsplit(' ', 1)", props=["C18"]),
    dict(id="b142", file=Q, old="                        return qty.convert(unit)", new="                        return unit_from_sym.qty_cls(amnt, unit)", props=["C18"]),
    # --- hash
    dict(id="b150", file=Q, old="            return hash((cls, self.amount * equiv))", new="            return hash((cls, self.amount, equiv))", props=["C19"]),
    dict(id="b151", file=M, old="        return hash(self.quotation)", new="        return hash(self.inverse_quotation[2])", props=[]),   # still invariant: must NOT fire (kept as benign-like probe)
    # --- catalogue
    dict(id="b160", file=P, old="Decimal('0.45359237') * KILOGRAM", new="Decimal('0.4535924') * KILOGRAM", props=["C20"]),
    dict(id="b161", file=P, old="FOOT = Length.new_unit('ft', 'Foot', Decimal(12) * INCH)", new="FOOT = Length.new_unit('ft', 'Foot', Decimal(12) * CENTIMETRE)", props=["C20"]),
    dict(id="b162", file=S, old="MICRO = SIPrefix('Micro', 'µ', -6)", new="MICRO = SIPrefix('Micro', 'µ', -5)", props=["C20"]),
    dict(id="b163", file=P, old="lb     Pound                     0.45359237·kg        0.45359237", new="lb     Pound                     0.45359237·kg        0.4535923", props=["C20"]),
    dict(id="b164", file=P, old="                 quantum=Fraction(1, 8)):", new="                 quantum=Fraction(1, 4)):", props=["C20"]),
    # --- round-3 rules
    dict(id="b200", file=Q, old="                    rem_amount -= quantum\n                    if rem_amount == 0:\n                        break\n",
         new="                    rem_amount -= quantum\n", props=["C06"]),
    dict(id="b201", file=M, old="                    validity = (dt.year, dt.month)\n            elif n_parts == 1:",
         new="                    validity = (dt.month, dt.year)\n            elif n_parts == 1:", props=["C11"]),
    dict(id="b202", file=M, old="                else:\n                    validity = dt.year\n", new="                else:\n                    validity = dt.month\n", props=["C11"]),
    dict(id="b203", file=M, old="        self._type_of_validity = type(validity)\n", new="        self._type_of_validity = type(None) if isinstance(validity, int) else type(validity)\n", props=["C11"]),
    dict(id="b204", file=CU, old="                _currency_dict[iso_code] = (iso_code, int(iso_num_code), name,\n                                            int(minor_units), [country])",
         new="                _currency_dict[iso_code] = (iso_code, int(minor_units), name,\n                                            int(iso_num_code), [country])", props=["C08"]),
    dict(id="b205", file=CU, old="        country, name, iso_code, iso_num_code, minor_units = descr", new="        name, country, iso_code, iso_num_code, minor_units = descr", props=["C08"]),
    dict(id="b207", file=CU, old="        raise ValueError(f\"Unknown ISO 4217 code: '{iso_code}'.\")", new="        return (iso_code, 0, iso_code, 2, [])", props=["C08"]),
    dict(id="b208", file=S, old="        return Decimal(10) ** self.exp  # type: ignore", new="        return 10 ** self.exp  # type: ignore", props=["C20"]),
    dict(id="b209", file=Q, old="        assert unit is not None\n        return amnt, unit\n\n    def __pow__",
         new="        assert unit is not None\n        _UNIT_OP_CACHE[(operator.pow, self)] = (amnt, unit)\n        return amnt, unit\n\n    def __pow__", props=["C17"]),
    dict(id="b210", file=Q, old="        assert unit is not None\n        return amnt, unit\n\n    def __pow__",
         new="        assert unit is not None\n        _UNIT_OP_CACHE[(operator.mul, self, exp)] = (amnt, unit)\n        return amnt, unit\n\n    def __pow__", props=["C17"]),
    dict(id="b211", file=Q, old="            unit._equiv = ONE * (define_as.normalized().num_elem or ONE)",
         new="            unit._equiv = ONE * (define_as.normalized().num_elem or ONE) * 2", props=["C01"]),
    dict(id="b213", file=M, old="        if term_amount < Decimal(\"0.1\"):\n            # unit_multiple is not a power to 10, so the division lowered\n            # the magnitude of term_amount by one more\n            mult *= 10\n            term_amount *= 10\n",
         new="", props=["C09"]),
    dict(id="b214", file=M, old="        if term_amount < Decimal(\"0.1\"):\n            # unit_multiple", new="        if term_amount < Decimal(\"0.01\"):\n            # unit_multiple", props=["C09"]),
    dict(id="b215", file=M, old="            mult *= 10\n            term_amount *= 10\n", new="            mult *= 10\n", props=["C09"]),
    dict(id="b216", file=M, old="        mult = Decimal(10) ** (unit_multiple.magnitude\n                               - min(0, magnitude_term_amount + 1))",
         new="        mult = Decimal(10) ** (unit_multiple.magnitude\n                               + min(0, magnitude_term_amount + 1))", props=["C09"]),
    dict(id="b221", file=Q, old="        return format(self.symbol, fmt_spec)", new="        return format(self.name or self.symbol, fmt_spec)", props=["C18"]),
    dict(id="b222", file=Q, old="    dflt_format_spec = '{a} {u}'", new="    dflt_format_spec = '{a}  {u}'", props=["C18"]),
    dict(id="b223", file=Q, old="        return fmt_spec.format(a=self.amount, u=self.unit)", new="        return fmt_spec.format(a=self.unit, u=self.amount)", props=["C18"]),
    dict(id="b224", file=Q, old="        return f\"{self.amount} {self.unit}\"", new="        return f\"{self.amount:.6f} {self.unit}\"", props=["C18"]),
    dict(id="b225", file=Q, old="        if not fmt_spec:\n            fmt_spec = self.dflt_format_spec", new="        if fmt_spec is None:\n            fmt_spec = self.dflt_format_spec", props=["C18"]),
    dict(id="b230", multi=[(Q, "            else:\n                raise ValueError(\"Item with same or equivalent definition \"\n                                 f\"already registered: '{reg_cls}'.\")\n", "            else:\n                pass\n"),
                          (Q, "        cls._reg_id = QuantityMeta._registry.register_item(cls)", "        try:\n            cls._reg_id = QuantityMeta._registry.register_item(cls)\n        except ValueError:\n            cls._reg_id = -1")], props=["C02"]),
    dict(id="b231", file=R, old="            elif self._unique_items:\n", new="            elif self._unique_items and idx < 0:\n", props=["C02"]),
    dict(id="b240", file="src/quantity/exceptions.py", old="class IncompatibleUnitsError(QuantityError):", new="class IncompatibleUnitsError(TypeError):", props=["C18"]),
    dict(id="b250", file=M, old="        \"\"\"The money's currency, i.e. its unit.\"\"\"\n        return self._unit\n",
         new="        \"\"\"The money's currency, i.e. its unit.\"\"\"\n        return self._unit\n\n    def __eq__(self, other):\n        return isinstance(other, Money) and self.amount == other.amount\n\n    __hash__ = Quantity.__hash__\n", props=["C08"]),
    dict(id="b251", file=M, old="        \"\"\"The money's currency, i.e. its unit.\"\"\"\n        return self._unit\n",
         new="        \"\"\"The money's currency, i.e. its unit.\"\"\"\n        return self._unit\n\n    def __add__(self, other):\n        if isinstance(other, Money):\n            return self.__class__(self.amount + other.amount, self.unit)\n        return NotImplemented\n", props=["C08"]),
    dict(id="b252", file=P, old="class Temperature(Quantity):\n    \"\"\"Temperature: measure of thermal energy\"\"\"\n", new="class Temperature(Quantity):\n    \"\"\"Temperature: measure of thermal energy\"\"\"\n\n    def __lt__(self, other):\n        return self.amount < other.amount\n", props=["C04"]),
    dict(id="b260", multi=[(Q, "            else:\n                return factor * self.amount", "            else:\n                key = (self.unit, unit)\n                try:\n                    return _EQUIV_MEMO[key]\n                except KeyError:\n                    res = _EQUIV_MEMO[key] = factor * self.amount\n                    return res"),
                          (Q, "_UNIT_OP_CACHE: UnitOpCacheT = {}\n", "_UNIT_OP_CACHE: UnitOpCacheT = {}\n_EQUIV_MEMO: Dict[Any, Any] = {}\n")], props=["C01"]),
    dict(id="b261", file=Q, old="                except (TypeError, ValueError, ZeroDivisionError):\n                    raise QuantityError(f\"Can't convert", new="                except (TypeError, ValueError):\n                    raise QuantityError(f\"Can't convert", props=["C18", "C15"]),
    dict(id="b212", file=M, old="        if cls._converters[-1] is conv:\n            cls._converters.pop()", new="        if cls._converters[-1] is conv:\n            del cls._converters[0]", props=["C12"]),
]
BREAKING = [b for b in BREAKING if b["props"]]

BENIGN = [
    dict(id="g001", file=Q, old="                return factor * self.amount", new="                return self.amount * factor", props=["C01", "C02", "C03", "C04", "C05", "C13", "C14"]),
    dict(id="g002", file=Q, old="        equiv_amount = self.equiv_amount(to_unit)\n        if equiv_amount is None:\n            raise UnitConversionError(\"Can't convert '%s' to '%s'.\",\n                                      self.unit, to_unit)\n        return equiv_amount * to_unit",
         new="        amnt_in_to_unit = self.equiv_amount(to_unit)\n        if amnt_in_to_unit is not None:\n            return amnt_in_to_unit * to_unit\n        raise UnitConversionError(\"Can't convert '%s' to '%s'.\",\n                                  self.unit, to_unit)", props=["C01", "C05", "C08", "C14", "C18"]),
    dict(id="g003", file=Q, old="            return self.__class__(self.amount + equiv, self.unit)", new="            return self.__class__(equiv + self._amount, self._unit)", props=["C03", "C05", "C08", "C14"]),
    dict(id="g004", file=Q, old="        return self._compare(other, operator.lt)\n\n    def __le__(self, other: Any) -> bool:\n        \"\"\"self <= other\"\"\"\n        return self._compare(other, operator.le)\n\n    def __gt__(self, other: Any) -> bool:\n        \"\"\"self > other\"\"\"\n        return self._compare(other, operator.gt)\n\n    def __ge__(self, other: Any) -> bool:\n        \"\"\"self >= other\"\"\"\n        return self._compare(other, operator.ge)\n\n    def __hash__",
         new="        return self._compare(other, lambda x, y: x < y)\n\n    def __le__(self, other: Any) -> bool:\n        \"\"\"self <= other\"\"\"\n        return self._compare(other, operator.le)\n\n    def __gt__(self, other: Any) -> bool:\n        \"\"\"self > other\"\"\"\n        return self._compare(other, operator.gt)\n\n    def __ge__(self, other: Any) -> bool:\n        \"\"\"self >= other\"\"\"\n        return self._compare(other, operator.ge)\n\n    def __hash__", props=["C03", "C04", "C08", "C14"]),
    dict(id="g005", file=Q, old="        qty_cls = self._qty_cls\n        if isinstance(other, Unit):\n            if self.qty_cls is other.qty_cls:\n                if qty_cls.ref_unit is None:\n                    return None",
         new="        if isinstance(other, Unit):\n            if self.qty_cls is other.qty_cls:\n                own_type = self._qty_cls\n                if own_type.ref_unit is None:\n                    return None", props=["C01", "C02", "C04", "C07", "C08"]),
    dict(id="g006", file=Q, old="            amnt = Decimal(amnt / quantum, 0) * quantum", new="            n_quanta = Decimal(amnt / quantum, 0)\n            amnt = quantum * n_quanta", props=["C05", "C18", "C15"]),
    dict(id="g007", file=Q, old="            return (self.amount * other.amount * amnt) * unit", new="            return (amnt * self.amount * other.amount) * unit", props=["C02", "C05", "C08"]),
    dict(id="g008", file=M, old="        return self._term_amount / self._unit_multiple", new="        ta, um = self._term_amount, self._unit_multiple\n        return ta / um", props=["C09", "C10", "C11", "C19"]),
    dict(id="g009", file=M, old="        if cls._converters[-1] is conv:\n            cls._converters.pop()", new="        stack = cls._converters\n        if stack[-1] is conv:\n            stack.pop()", props=["C12"]),
    dict(id="g010", file=Q, old="            if ar > ay or (ar == ay and quot >= 0):\n                return quot + 1\n            else:\n                return quot\n        elif rounding == ROUNDING.ROUND_HALF_EVEN:",
         new="            if ar > ay or (ar == ay and not quot < 0):\n                return quot + 1\n            return quot\n        elif rounding == ROUNDING.ROUND_HALF_EVEN:", props=["C13"]),
    dict(id="g011", file=C, old="                return cast('Rational', (qty.amount - offset) / factor)", new="                shifted = qty.amount - offset\n                return cast('Rational', shifted / factor)", props=["C14"]),
    dict(id="g012", file=P, old="INCH = Length.new_unit('in', 'Inch', Decimal('2.54') * CENTIMETRE)", new="INCH = Length.new_unit('in', 'Inch', Decimal('0.0254') * METRE)", props=["C20"]),
    dict(id="g013", file=P, old="HOUR = Duration.new_unit('h', 'Hour', Decimal(60) * MINUTE)", new="HOUR = Duration.new_unit('h', 'Hour', Decimal(3600) * SECOND)", props=["C20"]),
    dict(id="g014", file=T, old="    return ((elem, -exp) for (elem, exp) in items)", new="    return ((element, -exponent) for (element, exponent) in items)", props=["C07", "C19"]),
    dict(id="g015", file=Q, old="            _op_cache[(operator.mul, self, other)] = (amnt, unit)\n            return amnt, unit", new="            result = (amnt, unit)\n            _op_cache[(operator.mul, self, other)] = result\n            return result", props=["C17", "C02"]),
    dict(id="g016", file=M, old="        rate = self.get_rate(money_amnt.currency, to_currency, effective_date)\n        if rate is None:\n            raise UnitConversionError(\"Can't convert '%s' to '%s'.\",\n                                      money_amnt.currency, to_currency)\n        else:\n            # TODO: remove 'type: ignore' when number.pyi got fixed\n            return rate.rate * money_amnt.amount  # type: ignore",
         new="        xrate = self.get_rate(money_amnt.currency, to_currency, effective_date)\n        if xrate is not None:\n            return money_amnt.amount * xrate.rate  # type: ignore\n        raise UnitConversionError(\"Can't convert '%s' to '%s'.\",\n                                  money_amnt.currency, to_currency)", props=["C11", "C12"]),
    dict(id="g017", file=Q, old="        return f\"{self.amount} {self.unit}\"", new="        return f\"{self._amount} {self._unit}\"", props=["C18"]),
    dict(id="g018", file=Q, old="            return hash((cls, self.amount * equiv))", new="            return hash((cls, equiv * self._amount))", props=["C19"]),
    dict(id="g019", file=Q, old="        n_portions = len(ratios)\n        total = sum(ratios)", new="        total = sum(ratios)\n        n_portions = len(ratios)", props=["C06"]),
    dict(id="g020", file=Q, old="        if not isinstance(symbol, str):\n            raise TypeError(\"'symbol' must be a string.\")\n        if not symbol:\n            raise ValueError(\"'symbol' must not be an empty string.\")\n        if isinstance(define_as, Quantity):",
         new="        if not isinstance(symbol, str):\n            raise TypeError(\"'symbol' must be a string.\")\n        if symbol == '':\n            raise ValueError(\"'symbol' must not be an empty string.\")\n        if isinstance(define_as, Quantity):", props=["C15", "C16"]),
    dict(id="g021", file=Q, old="        try:\n            _SYMBOL_UNIT_MAP[symbol]\n        except KeyError:\n            _SYMBOL_UNIT_MAP[symbol] = unit\n        else:\n            raise ValueError(\n                f\"Unit with symbol '{symbol}' already registered.\")",
         new="        if symbol in _SYMBOL_UNIT_MAP:\n            raise ValueError(\n                f\"Unit with symbol '{symbol}' already registered.\")\n        _SYMBOL_UNIT_MAP[symbol] = unit", props=["C01", "C15", "C16", "C17", "C08"]),
    dict(id="g022", file=Q, old="            try:  # try cache\n                return _op_cache[(operator.mul, self, other)]\n            except KeyError:\n                pass",
         new="            cached = _op_cache.get((operator.mul, self, other))\n            if cached is not None:\n                return cached", props=["C02", "C05", "C17"]),
    dict(id="g023", file=Q, old="        try:\n            return _SYMBOL_UNIT_MAP[symbol]\n        except KeyError:\n            raise ValueError(\n                f\"No unit with symbol '{symbol}' registered.\") from None",
         new="        unit = _SYMBOL_UNIT_MAP.get(symbol)\n        if unit is None:\n            raise ValueError(\n                f\"No unit with symbol '{symbol}' registered.\")\n        return unit", props=["C15", "C18"]),
    dict(id="g024", file=R, old="        try:\n            idx = self._item_def_map[item_norm_def]\n        except KeyError:\n            item_list = self._item_list\n            idx = len(item_list)\n            item_list.append([item])\n            self._item_def_map[item_norm_def] = idx\n            return idx\n        else:",
         new="        if item_norm_def not in self._item_def_map:\n            idx = len(self._item_list)\n            self._item_list.append([item])\n            self._item_def_map[item_norm_def] = idx\n            return idx\n        idx = self._item_def_map[item_norm_def]\n        if True:", props=["C02", "C15", "C16", "C17"]),
    dict(id="g025", multi=[
        (Q, "    def __le__(self, other: Any) -> bool:\n        \"\"\"self <= other\"\"\"\n        return self._compare(other, operator.le)\n\n    def __gt__(self, other: Any) -> bool:\n        \"\"\"self > other\"\"\"\n        return self._compare(other, operator.gt)\n\n    def __ge__(self, other: Any) -> bool:\n        \"\"\"self >= other\"\"\"\n        return self._compare(other, operator.ge)\n\n    @overload\n    def __mul__(self, other: int) -> Quantity:  # noqa: D105\n        ...\n\n    @overload\n    def __mul__(self, other: float) -> Quantity:  # noqa: D105\n        ...\n\n    @overload\n    def __mul__(self, other: Real) -> Quantity:  # noqa: D105\n        ...\n\n    @overload\n    def __mul__(self, other: SIPrefix)",
            "    @overload\n    def __mul__(self, other: int) -> Quantity:  # noqa: D105\n        ...\n\n    @overload\n    def __mul__(self, other: float) -> Quantity:  # noqa: D105\n        ...\n\n    @overload\n    def __mul__(self, other: Real) -> Quantity:  # noqa: D105\n        ...\n\n    @overload\n    def __mul__(self, other: SIPrefix)"),
        (Q, "class Unit:\n    \"\"\"Unit of measure.", "@total_ordering\nclass Unit:\n    \"\"\"Unit of measure."),
        (Q, "from decimalfp import Decimal, ONE, ROUNDING, get_dflt_rounding_mode", "from functools import total_ordering\nfrom decimalfp import Decimal, ONE, ROUNDING, get_dflt_rounding_mode"),
    ], props=["C04", "C03", "C19"]),
    # --- round-3 rules
    dict(id="g200", file=M, old="        if cls._converters[-1] is conv:\n            cls._converters.pop()", new="        if cls._converters[-1] is conv:\n            del cls._converters[-1]", props=["C12", "C14"]),
    dict(id="g201", file=Q, old="        assert unit is not None\n        return amnt, unit\n\n    def __pow__",
         new="        assert unit is not None\n        return amnt, unit\n\n    @staticmethod\n    def drop_cached_results() -> None:\n        \"\"\"Forget memoised results.\"\"\"\n        _UNIT_OP_CACHE.clear()\n\n    def __pow__", props=["C17", "C02"]),
    dict(id="g202", file=S, old="        return Decimal(10) ** self.exp  # type: ignore", new="        return Decimal(10 ** abs(self.exp)) ** (1 if self.exp >= 0 else -1)  # type: ignore", props=["C20"]),
    dict(id="g204", file=CU, old="            else:\n                curr_entry[4].append(country)\n", new="            else:\n                _currency_dict[iso_code] = (iso_code, int(iso_num_code), name,\n                                            int(minor_units), curr_entry[4] + [country])\n", props=["C08"]),
    dict(id="g220", file=Q, old="        return f\"{self.amount} {self.unit}\"", new="        return \"%s %s\" % (self.amount, self.unit)", props=["C18"]),
    dict(id="g221", file=Q, old="        return f\"{self.amount} {self.unit}\"", new="        return str(self.amount) + \" \" + str(self.unit)", props=["C18"]),
    dict(id="g222", file=Q, old="        return f\"{self.amount} {self.unit}\"", new="        return self.__format__(\"\")", props=["C18"]),
    dict(id="g223", file=Q, old="        return f\"{self.amount} {self.unit}\"", new="        return \" \".join((str(self.amount), self.unit.symbol))", props=["C18"]),
    dict(id="g224", file=Q, old="        return fmt_spec.format(a=self.amount, u=self.unit)", new="        amount, unit = self.amount, self.unit\n        return fmt_spec.format(u=unit, a=amount)", props=["C18"]),
    dict(id="g225", file=Q, old="        return f\"{self.symbol}\"\n", new="        return self.symbol\n", props=["C18"]),
    dict(id="g226", file=Q, old="        return f\"{self.symbol}\"\n", new="        return self._symbol\n", props=["C18"]),
    dict(id="g227", file=Q, old="        if not fmt_spec:\n            fmt_spec = self.dflt_format_spec", new="        fmt_spec = fmt_spec or self.dflt_format_spec", props=["C18"]),
    dict(id="g203", file=CU, old="            else:\n                curr_entry[4].append(country)\n", new="            else:\n                curr_entry[4].extend([country])\n", props=["C08"]),
]
