"""Python idioms the abstract interpreter must evaluate (appended to a scratch copy of quantity/utils.py by
selftest/idioms/run.py; never part of /repo)."""


import functools
import itertools
import contextlib
import operator
from typing import NamedTuple


class _Rec(NamedTuple):
    a: int
    b: int


def t_match(x):
    match x:
        case 0:
            return "zero"
        case int() | float():
            return "num"
        case (a, b):
            return a
        case _:
            return None


def t_walrus(xs):
    if (n := len(xs)) > 1:
        return n
    return 0


def t_chain_cmp(a, b, c):
    return a < b <= c


def t_closure(k):
    def add(x):
        return x + k
    return add(1)


def t_lambda_closure(k):
    f = lambda x: x * k
    return f(2)


def t_partial(a, b):
    f = functools.partial(operator.mul, a)
    return f(b)


def t_reduce(xs):
    return functools.reduce(operator.add, xs, 0)


def t_starmap(a, b):
    return list(itertools.starmap(operator.mul, [(a, b), (b, a)]))


def t_accumulate(a, b):
    return list(itertools.accumulate([a, b, a]))


def t_suppress(d, k):
    with contextlib.suppress(KeyError):
        return d[k]
    return None


def t_setcomp(a, b):
    return {x for x in (a, b, a)}


def t_kwonly(a, *, b=2):
    return a + b


def t_call_kwonly(a):
    return t_kwonly(a, b=3)


def t_nt(a, b):
    r = _Rec(a, b)
    x, y = r
    return r.a + y


def t_try_finally(a):
    try:
        r = a + 1
    except TypeError:
        r = 0
    else:
        r = r + 1
    finally:
        a = None
    return r


def t_anyall(a, b):
    return any(x > 0 for x in (a, b)) and all(x is not None for x in (a, b))


def t_dispatch(a, b, op):
    table = {"add": operator.add, "sub": operator.sub}
    return table[op](a, b)


def t_ternary(a, b):
    return a if a > b else b


def t_enumzip(a, b):
    return [(i, x, y) for i, (x, y) in enumerate(zip((a, b), (b, a)))]


def t_dictget(a):
    d = {"x": a}
    d.setdefault("y", 1)
    return d.get("x"), d.get("z", 0), d["y"]


@functools.singledispatch
def t_sd(x):
    return "other"


@t_sd.register
def _(x: int):
    return "int"


def t_nonlocal(a):
    total = 0

    def bump(v):
        nonlocal total
        total += v
    bump(a)
    bump(1)
    return total


def t_sorted_key(a, b):
    return sorted([(a, 1), (b, 0)], key=lambda t: t[1])


def t_isinstance_tuple(a):
    return isinstance(a, (int, float))


def t_fstring(a):
    return f"{a!r:>10}"


def t_slice(xs):
    return xs[1:], xs[:-1], xs[::2]


def t_aug_attr(xs):
    xs += [1]
    return xs


def t_star_call(a, b):
    args = (a, b)
    return operator.add(*args)


def t_kwargs_call(a):
    kw = {"b": 5}
    return t_kwonly(a, **kw)


def t_assert_msg(a):
    assert a is not None, "a must be given"
    return a


def t_global_const(a):
    return a * _FACTOR


_FACTOR = 3


def t_gen_func(a, b):
    def gen():
        yield a
        yield b
    return list(gen())


def t_conditional_import(a):
    import math
    return math.floor(a)


def t_try_return_finally(d):
    try:
        return d["k"]
    except KeyError:
        return None
    finally:
        pass


def t_while_else(n):
    i = 0
    while i < 3:
        i += 1
    else:
        i += 10
    return i


def t_for_else(xs):
    for x in xs:
        if x is None:
            break
    else:
        return "all"
    return "broke"


def t_sd_caller(a):
    return t_sd(a), t_sd("x")


import collections
import dataclasses


@functools.lru_cache(maxsize=None)
def t_lru(a):
    return a + 1


def t_call_lru(a):
    return t_lru(a) + t_lru(a)


_MEMO = {}


def t_module_memo(a):
    try:
        return _MEMO[a]
    except KeyError:
        r = _MEMO[a] = a * 2
        return r


class _Holder:
    __slots__ = ("x", "_y")

    def __init__(self, x):
        self.x = x
        self._y = None

    @functools.cached_property
    def double(self):
        return self.x * 2

    @property
    def y(self):
        if self._y is None:
            self._y = self.x + 1
        return self._y

    @staticmethod
    def smeth(a):
        return a - 1

    @classmethod
    def cmeth(cls, a):
        return cls(a)

    _TABLE = {"inc": lambda v: v + 1, "dec": lambda v: v - 1}

    def apply(self, name):
        return self._TABLE[name](self.x)

    def viatype(self):
        return type(self).smeth(self.x)


def t_holder(a):
    h = _Holder(a)
    return h.y, h.y, _Holder.smeth(a), _Holder.cmeth(a).x, h.apply("inc"), h.viatype()


def t_getattr(a):
    h = _Holder(a)
    return getattr(h, "x"), getattr(h, "zz", 7), hasattr(h, "x"), hasattr(h, "nope")


def t_itemgetter(a, b):
    f = operator.itemgetter(1)
    g = operator.attrgetter("x")
    return f((a, b)), g(_Holder(a))


def t_chain_from(a, b):
    return list(itertools.chain.from_iterable([(a,), (b,)]))


def t_product(a, b):
    return [x * y for x, y in itertools.product((a, b), repeat=2)]


def t_zip_longest(a, b):
    return list(itertools.zip_longest((a, b), (a,), fillvalue=0))


def t_sum_gen(a, b):
    return sum(x * 2 for x in (a, b)), sum((a, b), 10)


def t_minmax_key(a, b):
    return min([(1, a), (0, b)], key=lambda t: t[0]), max(a, b, 3)


def t_defaultdict(a):
    d = collections.defaultdict(list)
    d["k"].append(a)
    return d["k"], len(d)


@dataclasses.dataclass(frozen=True)
class _DC:
    a: int
    b: int = 2


def t_dataclass(a):
    r = _DC(a)
    return r.a + r.b, r == _DC(a, 2)


def t_union_isinstance(a):
    return isinstance(a, int | float)


def t_raise_from(d):
    try:
        return d["k"]
    except (KeyError, IndexError) as exc:
        raise ValueError("missing") from exc


def t_dict_zip(a, b):
    return dict(zip(("x", "y"), (a, b)))["y"]


def t_str_ops(s):
    return s.upper().startswith("A"), "-".join(["a", "b"]), "a,b".split(","), s[0], len("abc"), "%s-%d" % ("a", 1)


def t_divmod_abs_round(a, b):
    q, r = divmod(a, b)
    return q, r, abs(a), round(a)


def t_tuple_cmp(a, b):
    return (a, 1) < (b, 2), (a, b) == (a, b)


def t_in_ops(a):
    return a in (1, 2, 3), "x" in {"x": 1}, a not in [a]


def t_bool_ops(a, b):
    return a or b, a and b, not a


def t_islice(a, b):
    return list(itertools.islice([a, b, a], 2))


def t_reversed_enumerate(a, b):
    return [(i, x) for i, x in enumerate(reversed([a, b]), start=1)]


def t_class_const(a):
    return a * _Holder.__slots__.__len__()


def t_lambda_default(a):
    fs = [lambda x, k=k: x + k for k in (1, 2)]
    return fs[0](a), fs[1](a)


def t_conditional_def(a):
    if a is None:
        def f(x):
            return 0
    else:
        def f(x):
            return x
    return f(a)


def t_del_and_pop(a):
    d = {"x": a, "y": 1}
    del d["y"]
    v = d.pop("x")
    return v, len(d)


def t_tuple_star(a, b):
    t = (a, *[b, a])
    return t


def t_string_format_spec(a):
    return "{:>5}".format(a), f"{a:05d}"


def t_is_ops(a):
    return a is None, a is not None, type(a) is int


def t_h1(a):
    h = _Holder(a)
    return h.y


def t_h2(a):
    return _Holder.smeth(a)


def t_h3(a):
    return _Holder.cmeth(a).x


def t_h4(a):
    return _Holder(a).apply("inc")


def t_h5(a):
    return _Holder(a).viatype()


def t_h6(a):
    return _Holder(a).double


import heapq


def t_heap(a, b):
    h = [(2, a), (1, b), (3, a)]
    heapq.heapify(h)
    first = heapq.heappop(h)
    heapq.heappush(h, (0, b))
    return first, heapq.heappop(h), len(h)


def t_sorted_indices(a, b):
    vals = [3, 1, 2]
    order = sorted(range(len(vals)), key=vals.__getitem__)
    return order, [vals[i] for i in order]


def t_dict_accumulate(a, b):
    acc = {}
    for k, v in (("x", a), ("y", b), ("x", b)):
        acc[k] = acc.get(k, 0) + v
    return sorted(acc.items())


def t_divmod_variants(a, b):
    q, r = a // b, a % b
    return q, r, -(-a // b)


def t_iter_resume(a, b):
    it = iter([a, b, a, b])
    first = []
    for x in it:
        first.append(x)
        if len(first) == 2:
            break
    rest = [y for y in it]
    return first, rest, iter(it) is it


def t_explicit_stack(a, b):
    out = []
    stack = [(iter([(a, 1), ("sub", 2), (b, 3)]), None)]
    while stack:
        it, outer = stack[-1]
        for elem, e in it:
            if outer is not None:
                e = e * outer
            if elem == "sub":
                stack.append((iter([(b, 5)]), e))
                break
            out.append((elem, e))
        else:
            stack.pop()
    return out


import math
import re
from fractions import Fraction as _Fr


def t_eafp_attr(a):
    x = _Fr(a, 3)
    try:
        m = x.magnitude         # only decimals have a magnitude
    except AttributeError:
        m = math.floor(2.5)
    return m


def t_flags(a):
    f = re.VERBOSE | re.DOTALL
    return f & re.DOTALL == re.DOTALL, 5 | 2, 6 & 3, 1 << 4


_RX = re.compile(r"(?P<n>\d+)-(?P<rest>.*)").fullmatch


def t_regex_const(a):
    m = _RX("12-ab c")
    none = _RX("x")
    return m["n"], m.group("rest"), m.groups(), none is None


_SEEN = set()


def t_global_set(a, b):
    key = ("k", a)
    hit = key in _SEEN
    _SEEN.add(key)
    return hit


def t_count_split(a):
    s = "2020-05-17"
    return s.count("-") + 1 == len(s.split("-")), s.split("-")[1]


def t_gen_unpack(a, b):
    def pairs():
        for i, n in enumerate(("x", "y"), start=1):
            yield f"{n}{i}", i * a
    (p, q), (r, s) = pairs()
    return p, q, r, s
