#!/venv/bin/python
"""Regression test of Engine A's Python coverage: every function of idioms_module.py is evaluated abstractly on
symbolic arguments and the outcomes are compared with expect.json.  Nothing is executed: the module is appended to
a scratch copy of the repository's utils.py (in a temporary directory that is removed afterwards) and *interpreted*
by the checker.  `run.py --update` rewrites expect.json."""
import json, os, shutil, sys, tempfile
HERE = os.path.dirname(os.path.abspath(__file__))
ROOT = os.path.dirname(os.path.dirname(HERE))
sys.path.insert(0, ROOT)
sys.dont_write_bytecode = True


def main(argv):
    repo = os.environ.get("QSA_REPO", "/repo")
    tmp = tempfile.mkdtemp(prefix="qsa-idioms-")
    try:
        shutil.copytree(os.path.join(repo, "src"), os.path.join(tmp, "src"))
        shutil.copytree(os.path.join(repo, "utils"), os.path.join(tmp, "utils"))
        code = open(os.path.join(HERE, "idioms_module.py"), encoding="utf-8").read()
        with open(os.path.join(tmp, "src", "quantity", "utils.py"), "a", encoding="utf-8") as fh:
            fh.write("\n\n" + code.split('"""', 2)[2])
        os.environ["QSA_REPO"] = tmp
        from qsa.loader import Program
        from qsa.contracts import StrV, ListV, NONE
        from qsa.models import DictV
        from qsa.interp import Unsupported
        from qsa.engine_a import run_case
        prog = Program(tmp)
        m = prog.modules["quantity.utils"]
        N = lambda c, n, k="int": c.num(n, k)
        special = {
            "t_walrus": lambda c: [ListV([N(c, "a"), N(c, "b")])], "t_reduce": lambda c: [ListV([N(c, "a"), N(c, "b")])],
            "t_suppress": lambda c: [DictV([(StrV("k"), N(c, "v"))]), StrV("k")],
            "t_dispatch": lambda c: [N(c, "a"), N(c, "b"), StrV("sub")],
            "t_slice": lambda c: [ListV([N(c, "a"), N(c, "b"), N(c, "c")])], "t_aug_attr": lambda c: [ListV([N(c, "a")])],
            "t_conditional_import": lambda c: [N(c, "a", "dec")],
            "t_try_return_finally": lambda c: [DictV([(StrV("k"), N(c, "v"))])],
            "t_for_else": lambda c: [ListV([N(c, "a"), NONE])], "t_raise_from": lambda c: [DictV([])],
            "t_str_ops": lambda c: [StrV("abc")],
        }
        got = {}
        for name, fi in sorted(m.functions.items()):
            if not name.startswith("t_") or name in ("t_kwonly", "t_lru", "t_sd", "t_class_const"):
                continue
            if name in special:
                mk = special[name]
            else:
                params = [p.arg for p in fi.node.args.args]
                mk = (lambda c, params=params: [N(c, p) for p in params])
            try:
                outs = run_case(prog, fi, lambda c, mk=mk: (mk(c), {}), max_depth=8)
                import re
                got[name] = sorted(re.sub(r":\d+", "", o.brief()) for o in outs)      # independent of line numbers
            except Unsupported as e:
                got[name] = ["UNSUPPORTED " + str(e).split(": unsupported construct ")[-1][:80]]
        path = os.path.join(HERE, "expect.json")
        if "--update" in argv:
            json.dump(got, open(path, "w"), indent=1, sort_keys=True)
            print(f"idioms: {len(got)} functions recorded")
            return 0
        want = json.load(open(path))
        bad = [n for n in sorted(set(got) | set(want)) if got.get(n) != want.get(n)]
        for n in bad:
            print(f"  idiom {n}: got {got.get(n)}, expected {want.get(n)}")
        print(f"idioms: {len(got) - len(bad)} of {len(got)} evaluated as recorded")
        return 1 if bad else 0
    finally:
        shutil.rmtree(tmp, ignore_errors=True)


if __name__ == "__main__":
    sys.exit(main(sys.argv[1:]))
