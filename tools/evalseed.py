#!/usr/bin/env python3
"""evalseed.py <seed dir with patch.diff + demo.py> [...]
Confirm a seeded change on a scratch copy of /repo (applies, suite passes, demo fails with / passes without)
and run all checks against it.  Prints one JSON line per seed."""
import json, os, shutil, subprocess, sys, tempfile
from concurrent.futures import ThreadPoolExecutor

VERIF = os.path.dirname(os.path.dirname(os.path.abspath(__file__)))
PROPS = [f"C{i:02d}" for i in range(1, 21)]


def sh(cmd, cwd=None, env=None, timeout=900):
    r = subprocess.run(cmd, shell=True, cwd=cwd, env=env, capture_output=True, text=True, timeout=timeout)
    return r.returncode, (r.stdout + r.stderr)


def evaluate(sd, run_tests=True):
    tmp = tempfile.mkdtemp(prefix="qsa_seed_")
    out = {"seed": sd}
    try:
        for d in ("src", "utils", "tests"):
            shutil.copytree(os.path.join("/repo", d), os.path.join(tmp, d))
        for f in ("setup.cfg", "pyproject.toml", "tox.ini"):
            if os.path.exists(os.path.join("/repo", f)):
                shutil.copy(os.path.join("/repo", f), tmp)
        env = dict(os.environ, PYTHONPATH=os.path.join(tmp, "src"))
        demo = os.path.join(sd, "demo.py")
        c0, _ = sh(f"/venv/bin/python {demo}", cwd=tmp, env=env)
        out["demo_without"] = c0
        c, o = sh(f"patch -p1 --no-backup-if-mismatch < {os.path.join(sd, 'patch.diff')}", cwd=tmp)
        out["applies"] = c == 0
        if c != 0:
            out["apply_output"] = o[-300:]
            return out
        c1, o1 = sh(f"/venv/bin/python {demo}", cwd=tmp, env=env)
        out["demo_with"] = c1
        if run_tests:
            c, o = sh("/venv/bin/python -m pytest -q -p no:cacheprovider -n 4 tests 2>&1 | tail -1", cwd=tmp, env=env)
            out["tests"] = o.strip()[-60:]
        env2 = dict(os.environ, QSA_REPO=tmp, QSA_NO_EVIDENCE="1")
        codes = {}
        firing = {}
        for p in PROPS:
            c, o = sh(f"{VERIF}/bin/vcheck {p} --tier quick", env=env2)
            codes[p] = c
            if c == 1:
                firing[p] = [l.strip()[:200] for l in o.splitlines() if l.strip().startswith("violated")][:3]
            elif c == 2:
                firing[p] = [l.strip()[:200] for l in o.splitlines() if "ANALYSIS-ERROR" in l][:1]
        out["fired"] = sorted(p for p, c in codes.items() if c == 1)
        out["errors"] = sorted(p for p, c in codes.items() if c == 2)
        out["detail"] = firing
        return out
    finally:
        shutil.rmtree(tmp, ignore_errors=True)


if __name__ == "__main__":
    args = sys.argv[1:]
    run_tests = "--no-tests" not in args
    seeds = [a for a in args if not a.startswith("--")]
    with ThreadPoolExecutor(max_workers=5 if run_tests else 8) as ex:
        for r in ex.map(lambda s_: evaluate(s_, run_tests), seeds):
            print(json.dumps(r, ensure_ascii=False))
