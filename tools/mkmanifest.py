#!/usr/bin/env python3
"""Regenerate MANIFEST.json from the table below (keeps it schema-valid)."""
import json, os
HERE = os.path.dirname(os.path.dirname(os.path.abspath(__file__)))
props = [json.loads(l) for l in open(os.path.join(HERE, "properties.jsonl"))]

CLAIMS = json.load(open(os.path.join(HERE, "tools", "claims.json")))

checks = []
na = []
for p in props:
    pid = p["id"]
    c = CLAIMS.get(pid)
    if not c or not c.get("claimed"):
        na.append({"property_id": pid, "reason": (c or {}).get("reason", "check under construction; not yet claimed")})
        continue
    checks.append({
        "property_id": pid,
        "quick_cmd": f"bin/vcheck {pid} --tier quick",
        "thorough_cmd": f"bin/vcheck {pid} --tier thorough",
        "evidence_file": f"/verif/evidence/{pid}.json",
        "replay_cmd_template": f"bin/vcheck {pid} --replay {{path}}",
        "engine": c["engine"],
        "level_claimed": {"category": "other", "text": c["text"], "design_ref": c.get("design_ref", "DESIGN.md §3 " + pid)},
        "level_note": c["note"],
        "technique": c["technique"],
    })
m = {
    "version": 1,
    "setup_cmd": "/venv/bin/python bin/selfcheck",
    "hooks": {"guard": "QUANTITY_VERIF",
              "enable": "none needed: the checks parse /repo's working tree statically; there are no instrumentation hooks",
              "baseline_off_cmd": "cd /repo && /venv/bin/python -m pytest -ra -q -p no:cacheprovider --timeout=900 --continue-on-collection-errors",
              "source_commits": [], "add_only": True},
    "engines": [
        {"name": "absint", "path": "qsa/interp.py qsa/models.py qsa/models2.py qsa/poly.py qsa/contracts.py qsa/opcases.py",
         "serves_properties": [k for k, v in CLAIMS.items() if v.get("claimed") and "A" in v["engine"]],
         "kind_free_text": "path-enumerating abstract interpreter with a units-of-measure (rational function) domain; contract table oracle; every reader case is also evaluated as a repeated call (same state / after a change of the ambient state, compared with a recomputation with nothing memoised), with memoising decorators and process-global memos as real state"},
        {"name": "effects", "path": "qsa/effects.py",
         "serves_properties": [k for k, v in CLAIMS.items() if v.get("claimed") and "B" in v["engine"]],
         "kind_free_text": "write-site inventory, who-may-write ownership, call graph, validate-before-mutate ordering"},
        {"name": "tables", "path": "qsa/tables.py",
         "serves_properties": [k for k, v in CLAIMS.items() if v.get("claimed") and "C" in v["engine"]],
         "kind_free_text": "exhaustive decision tables over finite abstract cases"},
        {"name": "catalogue", "path": "qsa/catalogue.py",
         "serves_properties": [k for k, v in CLAIMS.items() if v.get("claimed") and "D" in v["engine"]],
         "kind_free_text": "constant-propagating evaluator of the declarative catalogue with the checker's own semantics; independent reference tables"},
        {"name": "shapes", "path": "qsa/shapes.py",
         "serves_properties": [k for k, v in CLAIMS.items() if v.get("claimed") and "E" in v["engine"]],
         "kind_free_text": "AST shape / writer-reader agreement rules"},
    ],
    "checks": checks,
    "not_applicable": na,
    "notes": "Static analysis only: every check parses /repo (or $QSA_REPO) and never imports or runs it. exit 2 + ANALYSIS-ERROR = anchor vanished / construct outside the analysed subset. Known findings: known_findings.json.",
}
json.dump(m, open(os.path.join(HERE, "MANIFEST.json"), "w"), indent=1)
print(len(checks), "claimed;", len(na), "not applicable")
