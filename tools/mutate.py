#!/venv/bin/python
"""mutate.py [--files a.py,b.py] [--limit N] [--seed S] [--jobs J] [--out FILE] [--resume]

Mutation analysis of the *checks* (and, for what they miss, of the package's own test suite) - a tool for finding
blind spots, not a check: first-order syntactic mutants of the package (comparison / arithmetic / boolean operator
swaps, off-by-one constants, negated conditions, dropped `not`, deleted statements, swapped call arguments) are
applied one at a time to scratch copies (removed afterwards); for each mutant all 20 checks are run, and - only if
every check stays silent - the package's own suite.  A mutant that survives both is either equivalent or a gap in
a check: those are listed for triage.  One JSON line per mutant."""
import ast
import copy
import json
import os
import random
import shutil
import subprocess
import sys
import tempfile
import time
from concurrent.futures import ThreadPoolExecutor

HERE = os.path.dirname(os.path.dirname(os.path.abspath(__file__)))
REPO = os.environ.get("QSA_REPO", "/repo")
PROPS = [f"C{i:02d}" for i in range(1, 21)]
FILES = ["src/quantity/__init__.py", "src/quantity/term.py", "src/quantity/registry.py", "src/quantity/converter.py",
         "src/quantity/money/__init__.py", "src/quantity/cwdmeta.py", "src/quantity/utils.py",
         "src/quantity/si_prefixes.py", "src/quantity/predefined.py", "src/quantity/money/currencies.py"]

CMP = {ast.Lt: ast.LtE, ast.LtE: ast.Lt, ast.Gt: ast.GtE, ast.GtE: ast.Gt, ast.Eq: ast.NotEq, ast.NotEq: ast.Eq,
       ast.Is: ast.IsNot, ast.IsNot: ast.Is, ast.In: ast.NotIn, ast.NotIn: ast.In}
BIN = {ast.Add: ast.Sub, ast.Sub: ast.Add, ast.Mult: ast.Div, ast.Div: ast.Mult, ast.FloorDiv: ast.Div,
       ast.Mod: ast.FloorDiv, ast.Pow: ast.Mult}


def _in_annotation_or_doc(parents):
    return any(isinstance(p, (ast.AnnAssign,)) and False for p in parents)


def enumerate_mutants(tree):
    """-> list of (description, lineno, mutator) where mutator(tree_copy_node_index) applies the change."""
    nodes = list(ast.walk(tree))
    index = {id(n): i for i, n in enumerate(nodes)}
    # skip annotations, decorators, docstrings, `if TYPE_CHECKING` blocks and assert statements
    skip = set()
    for n in nodes:
        if isinstance(n, (ast.FunctionDef, ast.AsyncFunctionDef)):
            for a in ast.walk(n.args):
                if isinstance(a, ast.arg) and a.annotation is not None:
                    skip.update(id(x) for x in ast.walk(a.annotation))
            if n.returns is not None:
                skip.update(id(x) for x in ast.walk(n.returns))
            for d in n.decorator_list:
                skip.update(id(x) for x in ast.walk(d))
        if isinstance(n, ast.AnnAssign):
            skip.update(id(x) for x in ast.walk(n.annotation))
        if isinstance(n, ast.Assert):
            skip.update(id(x) for x in ast.walk(n))
        if isinstance(n, ast.If) and isinstance(n.test, ast.Name) and n.test.id == "TYPE_CHECKING":
            skip.update(id(x) for x in ast.walk(n))
        if isinstance(n, ast.Assign) and any(isinstance(t, ast.Name) and t.id.endswith("T") for t in n.targets) and \
                isinstance(n.value, (ast.Subscript,)):
            skip.update(id(x) for x in ast.walk(n))      # type aliases
    out = []
    for n in nodes:
        if id(n) in skip:
            continue
        i = index[id(n)]
        ln = getattr(n, "lineno", 0)
        if isinstance(n, ast.Compare) and len(n.ops) == 1 and type(n.ops[0]) in CMP:
            new = CMP[type(n.ops[0])]
            out.append((f"{type(n.ops[0]).__name__}->{new.__name__}", ln, ("cmp", i, new)))
        elif isinstance(n, ast.BinOp) and type(n.op) in BIN and not (isinstance(n.left, ast.Constant) and isinstance(n.left.value, str)):
            new = BIN[type(n.op)]
            out.append((f"{type(n.op).__name__}->{new.__name__}", ln, ("bin", i, new)))
        elif isinstance(n, ast.BoolOp):
            new = ast.Or if isinstance(n.op, ast.And) else ast.And
            out.append((f"{type(n.op).__name__}->{new.__name__}", ln, ("bool", i, new)))
        elif isinstance(n, ast.UnaryOp) and isinstance(n.op, ast.Not):
            out.append(("drop not", ln, ("dropnot", i, None)))
        elif isinstance(n, ast.UnaryOp) and isinstance(n.op, ast.USub):
            out.append(("drop unary minus", ln, ("dropneg", i, None)))
        elif isinstance(n, (ast.If, ast.While)) and not (isinstance(n.test, ast.UnaryOp) and isinstance(n.test.op, ast.Not)):
            out.append(("negate condition", ln, ("negtest", i, None)))
        elif isinstance(n, ast.IfExp):
            out.append(("swap conditional expression", ln, ("swapifexp", i, None)))
        elif isinstance(n, ast.Constant) and isinstance(n.value, bool):
            out.append((f"{n.value}->{not n.value}", ln, ("const", i, not n.value)))
        elif isinstance(n, ast.Constant) and isinstance(n.value, int) and not isinstance(n.value, bool) and abs(n.value) < 1000:
            out.append((f"{n.value}->{n.value + 1}", ln, ("const", i, n.value + 1)))
        elif isinstance(n, (ast.Assign, ast.AugAssign, ast.Expr)) and not (isinstance(n, ast.Expr) and isinstance(n.value, ast.Constant)):
            if isinstance(n, ast.Assign) and isinstance(n.value, ast.Constant) and n.value.value is None:
                continue
            out.append(("delete statement", ln, ("delete", i, None)))
        elif isinstance(n, ast.Raise):
            out.append(("delete raise", ln, ("delete", i, None)))
        elif isinstance(n, ast.Return) and n.value is not None and not (isinstance(n.value, ast.Constant) and n.value.value is None):
            out.append(("return None", ln, ("retnone", i, None)))
        elif isinstance(n, ast.Call) and len(n.args) >= 2 and not any(isinstance(a, ast.Starred) for a in n.args[:2]):
            out.append(("swap first two arguments", ln, ("swapargs", i, None)))
        elif isinstance(n, ast.Break):
            out.append(("break->continue", ln, ("brk", i, None)))
    return out


def apply_mutant(tree, spec):
    kind, i, arg = spec
    t = copy.deepcopy(tree)
    nodes = list(ast.walk(t))
    n = nodes[i]
    if kind == "cmp":
        n.ops = [arg()]
    elif kind == "bin":
        n.op = arg()
    elif kind == "bool":
        n.op = arg()
    elif kind in ("dropnot", "dropneg"):
        _replace(t, n, n.operand)
    elif kind == "negtest":
        n.test = ast.UnaryOp(op=ast.Not(), operand=n.test)
    elif kind == "swapifexp":
        n.body, n.orelse = n.orelse, n.body
    elif kind == "const":
        n.value = arg
    elif kind == "delete":
        _replace(t, n, ast.Pass())
    elif kind == "retnone":
        n.value = ast.Constant(value=None)
    elif kind == "swapargs":
        n.args[0], n.args[1] = n.args[1], n.args[0]
    elif kind == "brk":
        _replace(t, n, ast.Continue())
    ast.fix_missing_locations(t)
    return t


def _replace(tree, old, new):
    for parent in ast.walk(tree):
        for field, value in ast.iter_fields(parent):
            if value is old:
                setattr(parent, field, ast.copy_location(new, old))
                return
            if isinstance(value, list):
                for k, x in enumerate(value):
                    if x is old:
                        value[k] = ast.copy_location(new, old)
                        return


def function_at(tree, lineno):
    best = None
    for n in ast.walk(tree):
        if isinstance(n, (ast.FunctionDef, ast.ClassDef)) and n.lineno <= lineno <= (n.end_lineno or n.lineno):
            if best is None or n.lineno >= best.lineno:
                best = n
    return best.name if best is not None else "<module>"


def evaluate(item):
    rel, desc, ln, spec, tree, src_line, func = item
    tmp = tempfile.mkdtemp(prefix="qsa_mut_")
    rec = {"file": rel, "line": ln, "function": func, "mutation": desc, "source": src_line}
    try:
        for d in ("src", "utils"):
            shutil.copytree(os.path.join(REPO, d), os.path.join(tmp, d))
        try:
            mt = apply_mutant(tree, spec)
            text = ast.unparse(mt) + "\n"
            compile(text, rel, "exec")
        except Exception as e:      # noqa: BLE001
            rec["status"] = "invalid"
            rec["why"] = str(e)[:100]
            return rec
        open(os.path.join(tmp, rel), "w", encoding="utf-8").write(text)
        fired, errors = [], []

        def chk(p):
            env = dict(os.environ, QSA_REPO=tmp, QSA_NO_EVIDENCE="1")
            r = subprocess.run([os.path.join(HERE, "bin", "vcheck"), p, "--tier", "quick"], env=env,
                               capture_output=True, text=True, timeout=900)
            return p, r.returncode
        with ThreadPoolExecutor(max_workers=4) as ex:
            for p, c in ex.map(chk, PROPS):
                if c == 1:
                    fired.append(p)
                elif c != 0:
                    errors.append(p)
        rec["fired"], rec["errors"] = fired, errors
        if fired:
            rec["status"] = "killed by checks"
            return rec
        shutil.copytree(os.path.join(REPO, "tests"), os.path.join(tmp, "tests"))
        r = subprocess.run("/venv/bin/python -m pytest -q -x -p no:cacheprovider -n 4 tests 2>&1 | tail -1", shell=True, cwd=tmp,
                           env=dict(os.environ, PYTHONPATH=os.path.join(tmp, "src")), capture_output=True, text=True,
                           timeout=1800)
        tail = r.stdout.strip()[-80:]
        rec["suite"] = tail
        passed = " passed" in tail and "failed" not in tail and "error" not in tail.lower()
        if errors:
            rec["status"] = "exit 2 only" + (" (suite passes)" if passed else " (suite fails)")
        else:
            rec["status"] = "SURVIVED checks and suite" if passed else "killed by the suite only"
        return rec
    except subprocess.TimeoutExpired:
        rec["status"] = "timeout"
        return rec
    finally:
        shutil.rmtree(tmp, ignore_errors=True)


def recheck(path, out, jobs):
    """Re-run the checks (current state of /verif) on the mutants of an earlier run that no check reported;
    suite verdicts are kept from that run."""
    recs = [json.loads(l) for l in open(path)]
    cache = {}

    def one(rec):
        if rec["status"] == "killed by checks":
            return rec
        rel = rec["file"]
        if rel not in cache:
            src = open(os.path.join(REPO, rel), encoding="utf-8").read()
            tree = ast.parse(src)
            cache[rel] = (tree, enumerate_mutants(tree), src.splitlines())
        tree, muts, lines = cache[rel]
        cands = [(d, ln, spec) for d, ln, spec in muts if d == rec["mutation"] and ln == rec["line"]]
        if not cands:
            return rec
        k = rec.get("nth", 0)
        spec = cands[min(k, len(cands) - 1)][2]
        tmp = tempfile.mkdtemp(prefix="qsa_mut_")
        try:
            for d in ("src", "utils"):
                shutil.copytree(os.path.join(REPO, d), os.path.join(tmp, d))
            open(os.path.join(tmp, rel), "w", encoding="utf-8").write(ast.unparse(apply_mutant(tree, spec)) + "\n")
            fired, errors = [], []
            for p in PROPS:
                env = dict(os.environ, QSA_REPO=tmp, QSA_NO_EVIDENCE="1")
                r = subprocess.run([os.path.join(HERE, "bin", "vcheck"), p, "--tier", "quick"], env=env,
                                   capture_output=True, text=True, timeout=900)
                if r.returncode == 1:
                    fired.append(p)
                elif r.returncode != 0:
                    errors.append(p)
            new = dict(rec)
            new["fired"], new["errors"] = fired, errors
            passed = "suite passes" in rec["status"] or rec["status"].startswith("SURVIVED")
            if fired:
                new["status"] = "killed by checks"
            elif errors:
                new["status"] = "exit 2 only" + (" (suite passes)" if passed else " (suite fails)")
            else:
                new["status"] = "SURVIVED checks and suite" if passed else "killed by the suite only"
            new["first_run_status"] = rec["status"]
            return new
        finally:
            shutil.rmtree(tmp, ignore_errors=True)
    # mutants sharing (line, mutation) are told apart by their order
    seen = {}
    for r_ in recs:
        key = (r_["file"], r_["line"], r_["mutation"])
        r_["nth"] = seen.get(key, 0)
        seen[key] = r_["nth"] + 1
    with open(out, "w") as fh, ThreadPoolExecutor(max_workers=jobs) as ex:
        for new in ex.map(one, recs):
            fh.write(json.dumps(new, ensure_ascii=False) + "\n")
            fh.flush()
    print(f"mutate: rechecked -> {out}")


def main(argv):
    if "--recheck" in argv:
        i = argv.index("--recheck")
        jobs = int(argv[argv.index("--jobs") + 1]) if "--jobs" in argv else 4
        out = argv[argv.index("--out") + 1] if "--out" in argv else os.path.join(HERE, "out", "mutation.jsonl")
        return recheck(argv[i + 1], out, jobs)
    files, limit, seed, jobs, out, resume = FILES, None, 1, 4, os.path.join(HERE, "out", "mutation.jsonl"), False
    i = 0
    while i < len(argv):
        a = argv[i]
        if a == "--files":
            files = argv[i + 1].split(",")
            i += 2
        elif a == "--limit":
            limit = int(argv[i + 1])
            i += 2
        elif a == "--seed":
            seed = int(argv[i + 1])
            i += 2
        elif a == "--jobs":
            jobs = int(argv[i + 1])
            i += 2
        elif a == "--out":
            out = argv[i + 1]
            i += 2
        elif a == "--resume":
            resume = True
            i += 1
        else:
            i += 1
    items = []
    for rel in files:
        src = open(os.path.join(REPO, rel), encoding="utf-8").read()
        tree = ast.parse(src)
        lines = ast.unparse(tree).splitlines()
        src_lines = src.splitlines()
        for desc, ln, spec in enumerate_mutants(tree):
            items.append((rel, desc, ln, spec, tree, src_lines[ln - 1].strip()[:120] if 0 < ln <= len(src_lines) else "",
                          function_at(tree, ln)))
    random.Random(seed).shuffle(items)
    if limit:
        items = items[:limit]
    done = set()
    if resume and os.path.exists(out):
        for line in open(out):
            try:
                r = json.loads(line)
                done.add((r["file"], r["line"], r["mutation"], r["source"]))
            except ValueError:
                pass
    items = [it for it in items if (it[0], it[2], it[1], it[5]) not in done]
    os.makedirs(os.path.dirname(out), exist_ok=True)
    t0 = time.time()
    n = 0
    with open(out, "a" if resume else "w") as fh, ThreadPoolExecutor(max_workers=jobs) as ex:
        for rec in ex.map(evaluate, items):
            fh.write(json.dumps(rec, ensure_ascii=False) + "\n")
            fh.flush()
            n += 1
    print(f"mutate: {n} mutants evaluated in {time.time() - t0:.0f}s -> {out}")


if __name__ == "__main__":
    main(sys.argv[1:])
