#!/usr/bin/env python3
"""importseeds.py <root with <ID>/seed/<KIND>/{patch.diff,demo.py,notes.md}> <round> KIND=description [...] [--no-tests]

Confirm every seeded change of a round with tools/evalseed.py (applies, suite, demo with / without), run all checks
against it on a scratch copy, and store it as /verif/seeded/r<round>-<ID>-<KIND>/{patch.diff, demo.py, meta.json}.
KIND=description: e.g. AB="breaking change: ..." (kinds whose description starts with "behaviour-preserving" are
expected to leave all checks silent)."""
import json
import os
import shutil
import subprocess
import sys

VERIF = os.path.dirname(os.path.dirname(os.path.abspath(__file__)))


def main(argv):
    root, rnd = argv[0], int(argv[1])
    kinds = dict(a.split("=", 1) for a in argv[2:] if "=" in a)
    no_tests = "--no-tests" in argv
    dirs = []
    for pid in sorted(os.listdir(root)):
        for k in kinds:
            d = os.path.join(root, pid, "seed", k)
            if os.path.isfile(os.path.join(d, "patch.diff")):
                dirs.append((pid, k, d))
    head = subprocess.run(["git", "-C", "/repo", "rev-parse", "--short", "HEAD"], capture_output=True, text=True).stdout.strip()
    r = subprocess.run([sys.executable, os.path.join(VERIF, "tools", "evalseed.py")] + [d for _, _, d in dirs] +
                       (["--no-tests"] if no_tests else []), capture_output=True, text=True)
    recs = {}
    for line in r.stdout.splitlines():
        try:
            d = json.loads(line)
        except ValueError:
            continue
        recs[d["seed"]] = d
    bad = 0
    for pid, k, d in dirs:
        e = recs.get(d)
        if e is None:
            print(f"{pid}-{k}: no evaluation record")
            bad += 1
            continue
        preserving = kinds[k].startswith(("behaviour-preserving", "property-preserving", "benign"))
        as_expected = (not e["fired"] and not e["errors"]) if preserving else bool(e["fired"])
        confirmed = e.get("applies") and e.get("demo_without") == 0 and \
            (e.get("demo_with") == 0 if preserving else e.get("demo_with") not in (0, None)) and \
            (no_tests or " passed" in e.get("tests", "") and " failed" not in e.get("tests", ""))
        out = os.path.join(VERIF, "seeded", f"r{rnd}-{pid}-{k}")
        os.makedirs(out, exist_ok=True)
        shutil.copy(os.path.join(d, "patch.diff"), out)
        shutil.copy(os.path.join(d, "demo.py"), out)
        notes = open(os.path.join(d, "notes.md"), encoding="utf-8").read() if os.path.exists(os.path.join(d, "notes.md")) else ""
        meta = {
            "round": rnd, "property": pid, "kind": kinds[k],
            "author": "independent sub-agent (given only the property text and its own scratch worktree)",
            "needs_to_manifest_and_author_notes": notes,
            "confirmed_by": {
                "how": f"tools/evalseed.py on a scratch copy of /repo at HEAD {head}: patch applies, full suite with "
                       f"PYTHONPATH=<copy>/src, demo.py with and without the patch",
                "tests_with_change": e.get("tests", "not run"),
                "demo_exit_without": e.get("demo_without"), "demo_exit_with": e.get("demo_with")},
            "checks_reporting_a_violation": e["fired"], "checks_with_analysis_error": e["errors"],
            "first_run": "as expected" if as_expected else "NOT as expected",
            "first_reports": e["detail"],
        }
        json.dump(meta, open(os.path.join(out, "meta.json"), "w"), indent=1, ensure_ascii=False)
        flag = "" if (as_expected and confirmed) else ("  <-- " + ("UNCONFIRMED " if not confirmed else "") +
                                                       ("UNEXPECTED" if not as_expected else ""))
        if flag:
            bad += 1
        print(f"{pid}-{k}: applies={e.get('applies')} demo {e.get('demo_without')}/{e.get('demo_with')} tests={e.get('tests', '-')!r} "
              f"fired={e['fired']} errors={e['errors']}{flag}")
    print(f"importseeds: {len(dirs) - bad} of {len(dirs)} confirmed and as expected")
    return 0


if __name__ == "__main__":
    sys.exit(main(sys.argv[1:]))
